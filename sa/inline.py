"""Helper inlining: a behaviour-preserving `extract method` refactor must not hide the analysed statements from the
rules.  For the functions the models are anchored in (table INLINE) every call  self.<m>(...) / <Class>.<m>(...) / <nested def>(...)
of a helper that is NOT part of the interface the models know (the keep set) is expanded in the syntax tree before any rule runs:

    targets = self.m(a, b)      ->   <body of m with parameters replaced by a, b and `return e` replaced by `targets = e`>

Only helpers whose returns are in tail position (possibly under if/else) are expanded; anything else is left as a call (and the
rule that needed the statements then fails closed with `anchor missing`).  On a tree without such helpers nothing is rewritten.
The expanded statements keep the helper's line numbers, so reports still point at real source lines."""
import ast

from .front import dotted, _annotate, clone as _clone

# (module, qualname) -> names of methods that are modelled as calls (never expanded)
DS = "desolver/differential_system.py"
IT = "desolver/integrators/integrator_types.py"
OPT = "desolver/utilities/optimizer.py"
UT = "desolver/utilities/utilities.py"
INTERP = "desolver/utilities/interpolation.py"
INLINE = {
    (DS, "OdeSystem.integrate"): {"integrate", "integrator", "get_step_interpolant", "__allocate_soln_space", "__alloc_space_steps",
                                  "__fix_dt_dir", "__trim_soln_space", "initialise_integrator", "reset"},
    (DS, "OdeSystem.reset"): {"initialise_integrator", "__allocate_soln_space", "__trim_soln_space"},
    (DS, "OdeSystem.__getitem__"): set(),
    (DS, "DiffRHS.jac"): {"__call__", "rhs"},
    (DS, "DiffRHS.__call__"): {"rhs"},
    (DS, "DenseOutput.add_interpolant"): {"add_interpolant"},
    (DS, "DenseOutput.remove_interpolant"): set(),
    (DS, "DenseOutput.__call__"): {"find_interval", "find_interval_vec"},
    (DS, "DenseOutput.grad"): {"find_interval", "find_interval_vec"},
    (DS, "DenseOutput.find_interval"): set(),
    (DS, "DenseOutput.find_interval_vec"): set(),
    (DS, "handle_events"): {"__get_ev_f"},
    (DS, "prepare_events"): set(),
    (OPT, "brentsroot"): {"f"},
    (OPT, "brentsrootvec"): {"f", "_f"},
    (OPT, "newtontrustregion"): {"f", "jac", "fun", "fun_jac", "f_vec", "jac_vec"},
    (OPT, "hybrj"): {"f", "jac", "fun", "fun_jac", "f_vec", "jac_vec"},
    (OPT, "nonlinear_roots"): {"f", "jac", "fun", "fun_jac", "__fun_jac", "f_vec", "jac_vec"},
    (UT, "search_bisection"): set(),
    (UT, "search_bisection_vec"): set(),
    (UT, "JacobianWrapper.estimate"): {"rhs"},
    (UT, "JacobianWrapper.richardson"): {"estimate", "rhs"},
    (UT, "JacobianWrapper.adaptive_richardson"): {"estimate", "rhs", "check_converged"},
    (UT, "JacobianWrapper.__call__"): {"estimate", "rhs", "richardson", "adaptive_richardson"},
    (INTERP, "CubicHermiteInterp.__call__"): {"__affine_transform"},
    (INTERP, "CubicHermiteInterp.grad"): {"__affine_transform"},
    (IT, "RungeKuttaIntegrator.__call__"): {"step", "update_timestep", "get_error_estimate"},
    (IT, "RungeKuttaIntegrator.step"): {"algebraic_system", "algebraic_system_jacobian"},
    (IT, "RungeKuttaIntegrator.get_error_estimate"): set(),
    (IT, "ExplicitSymplecticIntegrator.__call__"): {"step", "update_timestep", "get_error_estimate"},
    (IT, "ExplicitSymplecticIntegrator.step"): set(),
    (IT, "generate_richardson_integrator.RichardsonExtrapolatedIntegrator.__call__"): {"step", "update_timestep", "get_error_estimate", "check_converged",
                                                                                     "subdiv_step", "adaptive_richardson"},
}
MAX_DEPTH = 3


def _contains(node_or_list, types):
    nodes = node_or_list if isinstance(node_or_list, list) else [node_or_list]
    for n in nodes:
        for x in _walk_same_function(n):
            if isinstance(x, types):
                return True
    return False


def _walk_same_function(node):
    todo = [node]
    while todo:
        n = todo.pop()
        yield n
        for ch in ast.iter_child_nodes(n):
            if isinstance(ch, (ast.FunctionDef, ast.AsyncFunctionDef, ast.Lambda, ast.ClassDef)):
                continue
            todo.append(ch)


class _Unsupported(Exception):
    pass


def _tail(stmts, k):
    """rewrite a statement list so that `return e` (tail position only) becomes k(e); returns (new list, terminated?)"""
    out = []
    for i, s in enumerate(stmts):
        if isinstance(s, ast.Return):
            out += k(s)
            return out, True
        if not _contains(s, ast.Return):
            out.append(s)
            continue
        if isinstance(s, ast.If):
            b, bt = _tail(s.body, k)
            o, ot = _tail(s.orelse, k)
            rest = stmts[i + 1:]
            if bt and ot:
                if rest:
                    pass    # unreachable code after the if: dropped
                out.append(_mkif(s, b, o))
                return out, True
            if _contains(b, ast.Return) and not bt or _contains(o, ast.Return) and not ot:
                raise _Unsupported("return on some but not all paths of a nested branch")
            r, rt = _tail(rest, k)
            if bt:
                out.append(_mkif(s, b, o + r))
            else:
                out.append(_mkif(s, b + r, o))
            return out, rt
        raise _Unsupported("return inside %s" % type(s).__name__)
    return out, False


def _mkif(orig, body, orelse):
    n = ast.If(test=orig.test, body=body or [ast.copy_location(ast.Pass(), orig)], orelse=orelse)
    return ast.copy_location(n, orig)


class _Subst(ast.NodeTransformer):
    def __init__(self, env, rename):
        self.env, self.rename = env, rename

    def visit_Name(self, n):
        if n.id in self.env and isinstance(n.ctx, ast.Load):
            return _clone(self.env[n.id])
        if n.id in self.rename:
            return ast.copy_location(ast.Name(id=self.rename[n.id], ctx=n.ctx), n)
        return n

    def visit_FunctionDef(self, n):
        return n        # closures are not rewritten (a helper defining closures over its parameters is not expanded, see _expandable)

    visit_Lambda = visit_FunctionDef


def _assigned_names(fn):
    out = set()
    for x in _walk_same_function(fn):
        if isinstance(x, ast.Name) and isinstance(x.ctx, (ast.Store, ast.Del)):
            out.add(x.id)
        if isinstance(x, (ast.FunctionDef, ast.AsyncFunctionDef, ast.ClassDef)) and x is not fn:
            out.add(x.name)
    for ch in ast.walk(fn):
        if isinstance(ch, (ast.FunctionDef, ast.ClassDef)) and ch is not fn:
            out.add(ch.name)
    return out


def _resolve(call, owner_cls, module, caller, keep, local_defs):
    """FunctionDef of the helper called by ``call`` (None when it is not an expandable helper), and whether it takes self"""
    f = call.func
    name = None
    bound = False
    if isinstance(f, ast.Attribute) and isinstance(f.value, ast.Name) and f.value.id in ("self", "cls"):
        name, bound = f.attr, True
    elif isinstance(f, ast.Attribute) and isinstance(f.value, ast.Name) and owner_cls is not None and f.value.id == owner_cls.name:
        name, bound = f.attr, False
    elif isinstance(f, ast.Name) and f.id in local_defs:
        h = local_defs[f.id]
        return (h, False) if f.id not in keep else (None, False)
    elif isinstance(f, ast.Name) and f.id.startswith("_") and f.id not in keep and isinstance(module.index.get(f.id), ast.FunctionDef):
        h = module.index[f.id]          # private module-level helper
        return (h, False) if h is not caller and not h.decorator_list else (None, False)
    if name is None or name in keep or owner_cls is None:
        return None, False
    h = _find_method(owner_cls, module, name)
    if h is None or h is caller:
        return None, False
    decs = [dotted(d) for d in h.decorator_list]
    if any(d not in ("staticmethod", "classmethod") for d in decs):
        return None, False
    takes_self = "staticmethod" not in decs
    return h, takes_self


def _find_method(cls, module, name, seen=()):
    for st in cls.body:
        if isinstance(st, ast.FunctionDef) and st.name == name:
            return st
    for b in cls.bases:
        d = dotted(b)
        base = module.index.get(d) if d else None
        if isinstance(base, ast.ClassDef) and base not in seen:
            r = _find_method(base, module, name, seen + (cls,))
            if r is not None:
                return r
    return None


def _expandable(h):
    if _contains(h.body, (ast.Yield, ast.YieldFrom, ast.Await, ast.Global, ast.Nonlocal)):
        return False
    if h.args.vararg or h.args.kwarg:
        return False
    return True


def _bind(h, call, takes_self):
    params = [a.arg for a in h.args.posonlyargs + h.args.args]
    defaults = dict(zip(params[len(params) - len(h.args.defaults):], h.args.defaults))
    for a, d in zip(h.args.kwonlyargs, h.args.kw_defaults):
        params.append(a.arg)
        if d is not None:
            defaults[a.arg] = d
    if takes_self:
        params = params[1:]
    if any(isinstance(a, ast.Starred) for a in call.args) or any(k.arg is None for k in call.keywords):
        raise _Unsupported("star arguments")
    env = {}
    for p, a in zip(params, call.args):
        env[p] = a
    if len(call.args) > len(params):
        raise _Unsupported("too many arguments")
    for k in call.keywords:
        if k.arg not in params or k.arg in env:
            raise _Unsupported("bad keyword")
        env[k.arg] = k.value
    for p in params:
        if p not in env:
            if p not in defaults:
                raise _Unsupported("missing argument %s" % p)
            env[p] = defaults[p]
    return env


def _same_names(target, value):
    """target structure equals the returned expression structure (names only): `a, b = helper()` with `return a, b`"""
    if isinstance(target, ast.Name) and isinstance(value, ast.Name):
        return target.id == value.id
    if isinstance(target, ast.Tuple) and isinstance(value, ast.Tuple) and len(target.elts) == len(value.elts):
        return all(_same_names(t, v) for t, v in zip(target.elts, value.elts))
    return False


def _names_of(t):
    return {x.id for x in ast.walk(t) if isinstance(x, ast.Name)}


def _split_tuple_assign(targets, value, loc):
    """`a, b = e1, e2` as `a = e1; b = e2` when no later element reads an earlier target (then the two forms are the same program);
    `x = x` elements are dropped"""
    whole = [ast.copy_location(ast.Assign(targets=targets, value=value, lineno=loc.lineno), loc)]
    if len(targets) != 1 or not isinstance(targets[0], ast.Tuple) or not isinstance(value, ast.Tuple) or len(targets[0].elts) != len(value.elts):
        return whole
    out, written = [], set()
    for t, v in zip(targets[0].elts, value.elts):
        if isinstance(t, ast.Starred) or isinstance(v, ast.Starred):
            return whole
        if {x.id for x in ast.walk(v) if isinstance(x, ast.Name)} & written:
            return whole
        if isinstance(t, ast.Name) and isinstance(v, ast.Name) and t.id == v.id:
            continue
        written |= {x.id for x in ast.walk(t) if isinstance(x, ast.Name)}
        if not isinstance(t, ast.Name):
            # attribute / subscript targets may alias what later values read: keep the tuple form
            return whole
        out.append(ast.copy_location(ast.Assign(targets=[t], value=v, lineno=loc.lineno), loc))
    return out


def expand_statement(st, ctx, depth):
    """list of statements replacing ``st`` (or None when st is not a helper call statement / the helper is not expandable)"""
    if isinstance(st, ast.Assign) and isinstance(st.value, ast.Call):
        call, kind = st.value, "assign"
    elif isinstance(st, ast.Expr) and isinstance(st.value, ast.Call):
        call, kind = st.value, "expr"
    elif isinstance(st, ast.Return) and isinstance(st.value, ast.Call):
        call, kind = st.value, "return"
    else:
        return None
    h, takes_self = _resolve(call, ctx["cls"], ctx["module"], ctx["caller"], ctx["keep"], ctx["local_defs"])
    if h is None or not _expandable(h) or depth > MAX_DEPTH:
        return None
    try:
        env = _bind(h, call, takes_self)
        hb = _clone(h.body)
        # docstring
        if hb and isinstance(hb[0], ast.Expr) and isinstance(hb[0].value, ast.Constant) and isinstance(hb[0].value.value, str):
            hb = hb[1:]
        assigned = _assigned_names(h)
        rets = [r for s in hb for r in _walk_same_function(s) if isinstance(r, ast.Return)]
        aligned = set()
        if kind == "assign" and len(st.targets) == 1 and rets and all(r.value is not None and _same_names(st.targets[0], r.value) for r in rets):
            aligned = _names_of(st.targets[0])
        pre = []
        subst = {}
        rename = {}
        for p, a in env.items():
            if p in assigned or _contains(hb, (ast.FunctionDef, ast.Lambda)):
                # parameter rebound in the helper (or captured by a closure): bind it with an explicit assignment
                new = p if p in aligned else "%s__%s" % (p, h.name.strip("_"))
                rename[p] = new
                pre.append(ast.copy_location(ast.Assign(targets=[ast.Name(id=new, ctx=ast.Store())], value=_clone(a), lineno=st.lineno), st))
            else:
                subst[p] = a
        for loc in assigned - set(env):
            if loc in ctx["caller_names"] and loc not in aligned:
                rename[loc] = "%s__%s" % (loc, h.name.strip("_"))
        hb = [_Subst(subst, rename).visit(s) for s in hb]

        def k(ret):
            v = ret.value if ret.value is not None else ast.copy_location(ast.Constant(value=None), ret)
            if kind == "assign":
                if ret.value is not None and len(st.targets) == 1 and _same_names(st.targets[0], _Subst({}, {v_: k_ for k_, v_ in rename.items()}).visit(_clone(ret.value))) \
                        and _same_names(st.targets[0], ret.value):
                    return []       # `a, b = a, b`: nothing to do
                return _split_tuple_assign(_clone(st.targets), v, ret)
            if kind == "return":
                return [ast.copy_location(ast.Return(value=v), ret)]
            if isinstance(v, ast.Constant) or isinstance(v, (ast.Name, ast.Attribute)):
                return []
            return [ast.copy_location(ast.Expr(value=v), ret)]
        body, term = _tail(hb, k)
        if not term and kind in ("assign", "return"):
            class _R:       # implicit `return None`
                value = None
                lineno = (hb[-1].lineno if hb else st.lineno)
                col_offset = 0
                end_lineno = lineno
                end_col_offset = 0
            fake = ast.Return(value=None)
            ast.copy_location(fake, hb[-1] if hb else st)
            body += k(fake)
        out = pre + body
        if not out:
            out = [ast.copy_location(ast.Pass(), st)]
        for s in out:
            ast.fix_missing_locations(s)
        return out
    except _Unsupported:
        return None


_counter = [0]


def _hoist(st, ctx):
    """helper calls nested inside the value of an assignment / return / expression statement (evaluated unconditionally) are moved
    into temporaries in front of the statement, so that expand_statement can expand them"""
    if not isinstance(st, (ast.Assign, ast.AugAssign, ast.Return, ast.Expr)) or st.value is None:
        return []
    top = st.value
    found = []

    def visit(n, parent, field, idx):
        if isinstance(n, (ast.Lambda, ast.ListComp, ast.SetComp, ast.DictComp, ast.GeneratorExp, ast.IfExp, ast.BoolOp)):
            return
        for fld, val in ast.iter_fields(n):
            if isinstance(val, list):
                for i, ch in enumerate(val):
                    if isinstance(ch, ast.AST):
                        visit(ch, n, fld, i)
            elif isinstance(val, ast.AST):
                visit(val, n, fld, None)
        if isinstance(n, ast.Call) and n is not top:
            h, _ = _resolve(n, ctx["cls"], ctx["module"], ctx["caller"], ctx["keep"], ctx["local_defs"])
            if h is not None and _expandable(h):
                found.append((n, parent, field, idx))
    visit(top, st, "value", None)
    pre = []
    for n, parent, field, idx in found:
        _counter[0] += 1
        tmp = "inl%d__%s" % (_counter[0], (dotted(n.func) or "f").split(".")[-1].strip("_"))
        pre.append(ast.copy_location(ast.Assign(targets=[ast.Name(id=tmp, ctx=ast.Store())], value=n, lineno=n.lineno), n))
        ref = ast.copy_location(ast.Name(id=tmp, ctx=ast.Load()), n)
        if idx is None:
            setattr(parent, field, ref)
        else:
            getattr(parent, field)[idx] = ref
    for p_ in pre:
        ast.fix_missing_locations(p_)
    return pre


def expand_function(fn, module, keep):
    """new FunctionDef with helper calls expanded, or ``fn`` itself when there is nothing to expand"""
    cls = fn._parent if isinstance(getattr(fn, "_parent", None), ast.ClassDef) else None
    new = _clone(fn)
    ctx = dict(cls=cls, module=module, caller=fn, keep=keep, caller_names={x.id for x in _walk_same_function(fn) if isinstance(x, ast.Name)},
               local_defs={})
    changed = [False]

    def block(stmts, depth, local_defs):
        out = []
        local_defs = dict(local_defs)
        for s in stmts:
            if isinstance(s, ast.FunctionDef):
                local_defs[s.name] = s
                out.append(s)
                continue
            ctx["local_defs"] = {n: d for n, d in local_defs.items() if _closed(d, ctx)}
            hoisted = _hoist(s, ctx)
            if hoisted:
                changed[0] = True
                out += block(hoisted + [s], depth, local_defs)
                continue
            rep = expand_statement(s, ctx, depth)
            if rep is not None:
                changed[0] = True
                out += block(rep, depth + 1, local_defs)
                continue
            for field in ("body", "orelse", "finalbody"):
                sub = getattr(s, field, None)
                if isinstance(sub, list) and sub and isinstance(sub[0], ast.stmt):
                    setattr(s, field, block(sub, depth, local_defs))
            for hnd in getattr(s, "handlers", []) or []:
                hnd.body = block(hnd.body, depth, local_defs)
            out.append(s)
        return out
    new.body = block(new.body, 0, {})
    if not changed[0]:
        return fn
    # nested helper definitions that are no longer called can stay; they are inert
    new._qualname = getattr(fn, "_qualname", None)
    new._module = getattr(fn, "_module", None)
    new._inlined = True
    return new


def _closed(d, ctx):
    """a nested def is expanded only when it does not rebind names of the enclosing function (no nonlocal) -- reads of enclosing
    variables are fine because the expansion happens in the same scope"""
    return not _contains(d.body, (ast.Nonlocal, ast.Global, ast.Yield, ast.YieldFrom))


def apply(repo):
    """expand helpers in every function of table INLINE present in ``repo`` (in place: the class body and the module index are updated)"""
    n = 0
    for (rel, qual), keep in INLINE.items():
        m = repo.modules.get(rel)
        if m is None or qual not in m.index:
            continue
        fn = m.index[qual]
        if not isinstance(fn, ast.FunctionDef):
            continue
        new = expand_function(fn, m, keep)
        if new is fn:
            continue
        parent = fn._parent
        for field in ("body", "orelse", "finalbody"):
            lst = getattr(parent, field, None)
            if isinstance(lst, list) and fn in lst:
                lst[lst.index(fn)] = new
        _annotate(new, parent)
        m.index[qual] = new
        # re-index nested definitions of the new node
        for q in [q for q in m.index if q.startswith(qual + ".")]:
            del m.index[q]
        m._index(new, qual + ".")
        n += 1
    return n


# ------------------------------------------------------------------------------------------------
def expand_module_aliases(repo):
    """`xp = D.ar_numpy` at the top of a function is a spelling, not a computation: a local bound exactly once (anywhere in the function, never a parameter,
    never rebound, not global/nonlocal) to a dotted path whose root is a module-level import alias is replaced by that path wherever it is read, nested
    closures included.  Returns the number of functions rewritten (0 on a tree without such aliases)."""
    n = 0
    for rel, m in repo.modules.items():
        roots = set(m.aliases)
        for q, fn in list(m.index.items()):
            if not isinstance(fn, ast.FunctionDef):
                continue
            params = {a.arg for a in fn.args.posonlyargs + fn.args.args + fn.args.kwonlyargs}
            if fn.args.vararg:
                params.add(fn.args.vararg.arg)
            if fn.args.kwarg:
                params.add(fn.args.kwarg.arg)
            stores = {}
            for x in _walk_same_function(fn):
                if isinstance(x, ast.Name) and isinstance(x.ctx, (ast.Store, ast.Del)):
                    stores.setdefault(x.id, []).append(x)
            cands = {}
            for st in _walk_same_function(fn):
                if isinstance(st, ast.Assign) and len(st.targets) == 1 and isinstance(st.targets[0], ast.Name) and isinstance(st.value, ast.Attribute):
                    nm = st.targets[0].id
                    d = dotted(st.value)
                    if d and d.split(".")[0] in roots and d.split(".")[0] not in stores and nm not in params and len(stores.get(nm, [])) == 1 \
                            and isinstance(getattr(st, "_parent", None), ast.FunctionDef) and st._parent is fn:
                        cands[nm] = (st, st.value)
            if not cands:
                continue
            # a nested function that rebinds the name shadows it: skip such names
            for sub in ast.walk(fn):
                if isinstance(sub, (ast.FunctionDef, ast.Lambda)) and sub is not fn:
                    for x in ast.walk(sub):
                        if isinstance(x, ast.Name) and isinstance(x.ctx, ast.Store) and x.id in cands:
                            cands.pop(x.id, None)
                        if isinstance(x, ast.arg) and x.arg in cands:
                            cands.pop(x.arg, None)
            if not cands:
                continue

            class T(ast.NodeTransformer):
                def visit_Name(self, node):
                    if isinstance(node.ctx, ast.Load) and node.id in cands:
                        new = _clone(cands[node.id][1])
                        ast.copy_location(new, node)
                        for sub in ast.walk(new):
                            ast.copy_location(sub, node)
                        return new
                    return node
            defs = {id(v[0]) for v in cands.values()}
            for field in ("body",):
                fn.body = [T().visit(st) for st in fn.body if id(st) not in defs] or [ast.copy_location(ast.Pass(), fn)]
            _annotate(fn, fn._parent)
            n += 1
    return n


# ------------------------------------------------------------------------------------------------
# attribute aliases:  `counter = self.counter` ... reads of `counter` ... `self.counter = counter + 1`
def _self_attr(node):
    return isinstance(node, ast.Attribute) and isinstance(node.value, ast.Name) and node.value.id == "self"


class _Kills:
    """what a statement list can invalidate: local names rebound, attributes of self rebound / touched (item store, mutating call), methods of self
    called (by name, so that their transitive write sets can be consulted) and calls whose effect on self is unknown"""

    MUT = {"append", "insert", "pop", "extend", "clear", "update", "remove", "sort", "reverse", "setdefault", "popitem", "add_interpolant", "remove_interpolant"}

    def __init__(self, stmts):
        self.names, self.rebound, self.touched, self.methods, self.opaque = set(), set(), set(), set(), False
        for st in stmts if isinstance(stmts, list) else [stmts]:
            for n in ast.walk(st):
                if isinstance(n, ast.Name) and isinstance(n.ctx, (ast.Store, ast.Del)):
                    self.names.add(n.id)
                elif isinstance(n, ast.arg):
                    self.names.add(n.arg)
                elif _self_attr(n) and isinstance(n.ctx, (ast.Store, ast.Del)):
                    self.rebound.add(n.attr)
                    self.touched.add(n.attr)
                elif isinstance(n, (ast.Subscript, ast.Attribute)) and isinstance(n.ctx, (ast.Store, ast.Del)):
                    base = n.value
                    while isinstance(base, (ast.Subscript, ast.Attribute)) and not _self_attr(base):
                        base = base.value
                    if _self_attr(base):
                        self.touched.add(base.attr)
                elif isinstance(n, ast.Call):
                    f = n.func
                    if _self_attr(f):
                        self.methods.add(f.attr)
                    elif isinstance(f, ast.Attribute) and _self_attr(f.value) and f.attr in self.MUT:
                        self.touched.add(f.value.attr)
                    elif (isinstance(f, ast.Name) and f.id == "self") or any(isinstance(a_, ast.Name) and a_.id == "self" for a_ in n.args) or \
                            any(isinstance(k.value, ast.Name) and k.value.id == "self" for k in n.keywords):
                        self.opaque = True
                elif isinstance(n, (ast.Yield, ast.YieldFrom, ast.Await)):
                    self.opaque = True


def _alias_attrs(expr):
    return {n.attr for n in ast.walk(expr) if _self_attr(n)}


def _apply_kills(active, k, props, writes_of=None):
    rebound, touched, opaque = set(k.rebound), set(k.touched), k.opaque
    for m in k.methods:
        w = writes_of(m) if writes_of is not None else None
        if w is None:
            opaque = True
        else:
            rebound |= w
            touched |= w
    for nm in list(active):
        e = active[nm]
        attrs = _alias_attrs(e)
        simple = _self_attr(e)
        dead = nm in k.names or opaque or (attrs & rebound) or (not simple and attrs & touched) or (attrs & props and (rebound or touched))
        if dead:
            del active[nm]


def _pure_alias_value(v):
    """self.a  |  self.a[<index built from self attributes, integer literals, + and ->]"""
    if _self_attr(v):
        return True
    if isinstance(v, ast.Subscript) and _self_attr(v.value) and isinstance(v.ctx, ast.Load):
        def idx_ok(e):
            if isinstance(e, ast.Constant) and isinstance(e.value, int):
                return True
            if _self_attr(e):
                return True
            if isinstance(e, ast.BinOp) and isinstance(e.op, (ast.Add, ast.Sub)):
                return idx_ok(e.left) and idx_ok(e.right)
            if isinstance(e, ast.UnaryOp) and isinstance(e.op, ast.USub):
                return idx_ok(e.operand)
            return False
        return idx_ok(v.slice)
    return False


def expand_attr_aliases_in(fn, props=frozenset(), writes_of=None):
    """Rewrites reads of a local that is, at that point, provably the value of `self.<attr>` (bound by `name = self.<attr>`, the attribute not rebound
    since, no method of self called since, the name not rebound since) into `self.<attr>`.  Flow-sensitive over the structured statements: both
    branches of an `if` must agree, a loop body's own kills apply from the loop head on, `try` statements kill conservatively.  Returns the number of
    reads rewritten.  An alias assignment whose name is no longer read anywhere is dropped."""
    nested_reads = set()
    for sub in ast.walk(fn):
        if isinstance(sub, (ast.FunctionDef, ast.Lambda, ast.AsyncFunctionDef)) and sub is not fn:
            for x in ast.walk(sub):
                if isinstance(x, ast.Name):
                    nested_reads.add(x.id)
    params = {a.arg for a in fn.args.posonlyargs + fn.args.args + fn.args.kwonlyargs}
    count = [0]

    class R(ast.NodeTransformer):
        def __init__(self, active):
            self.active = active

        def visit_Name(self, n):
            if isinstance(n.ctx, ast.Load) and n.id in self.active:
                new = _clone(self.active[n.id])
                for sub in ast.walk(new):
                    ast.copy_location(sub, n)
                count[0] += 1
                return new
            return n

        def visit_FunctionDef(self, n):
            return n

        def visit_Lambda(self, n):
            return n

    def rd(node, active):
        return R(active).visit(node) if active and node is not None else node

    def block(stmts, active):
        out = []
        for st in stmts:
            if isinstance(st, (ast.FunctionDef, ast.ClassDef, ast.AsyncFunctionDef)):
                out.append(st)
                continue
            if isinstance(st, ast.If):
                st.test = rd(st.test, active)
                _apply_kills(active, _Kills([st.test]), props, writes_of)
                a1, a2 = dict(active), dict(active)
                st.body = block(st.body, a1)
                st.orelse = block(st.orelse, a2)
                for nm in list(active):
                    if not (nm in a1 and nm in a2 and ast.dump(a1[nm]) == ast.dump(a2[nm]) == ast.dump(active[nm])):
                        del active[nm]
                for nm in a1:
                    if nm not in active and nm in a2 and ast.dump(a1[nm]) == ast.dump(a2[nm]):
                        active[nm] = a1[nm]
            elif isinstance(st, (ast.For, ast.While)):
                k = _Kills(st.body + st.orelse + ([st.target] if isinstance(st, ast.For) else []) + ([st.test] if isinstance(st, ast.While) else []))
                if isinstance(st, ast.For):
                    st.iter = rd(st.iter, active)
                    _apply_kills(active, _Kills([st.iter]), props, writes_of)
                _apply_kills(active, k, props, writes_of)
                if isinstance(st, ast.While):
                    st.test = rd(st.test, active)
                inner = dict(active)
                st.body = block(st.body, inner)
                st.orelse = block(st.orelse, dict(active))
            elif isinstance(st, (ast.Try, ast.With)) or type(st).__name__ in ("TryStar", "Match", "AsyncWith", "AsyncFor"):
                _apply_kills(active, _Kills([st]), props, writes_of)
                for field in ("body", "orelse", "finalbody"):
                    if isinstance(getattr(st, field, None), list):
                        setattr(st, field, block(getattr(st, field), dict(active)))
                for h in getattr(st, "handlers", []) or []:
                    h.body = block(h.body, dict(active))
                if isinstance(st, ast.With):
                    for it in st.items:
                        it.context_expr = rd(it.context_expr, active)
            elif isinstance(st, ast.Assign):
                st.value = rd(st.value, active)
                for t in st.targets:         # subscripts / attribute bases inside targets are reads
                    for f_ in ("value", "slice"):
                        if isinstance(t, (ast.Subscript, ast.Attribute)) and hasattr(t, f_):
                            setattr(t, f_, rd(getattr(t, f_), active))
                _apply_kills(active, _Kills([st]), props, writes_of)
                if len(st.targets) == 1 and isinstance(st.targets[0], ast.Name) and _pure_alias_value(st.value):
                    nm = st.targets[0].id
                    if nm not in nested_reads and nm not in params and nm != "self":
                        active[nm] = st.value
            elif isinstance(st, ast.AugAssign):
                st.value = rd(st.value, active)
                t = st.target
                for f_ in ("value", "slice"):
                    if isinstance(t, (ast.Subscript, ast.Attribute)) and hasattr(t, f_):
                        setattr(t, f_, rd(getattr(t, f_), active))
                _apply_kills(active, _Kills([st]), props, writes_of)
            else:
                new = rd(st, active)
                _apply_kills(active, _Kills([new]), props, writes_of)
                st = new
            out.append(st)
        return out

    fn.body = block(fn.body, {})
    if count[0]:
        # drop alias assignments whose name is never read any more
        loads = {x.id for x in ast.walk(fn) if isinstance(x, ast.Name) and isinstance(x.ctx, ast.Load)}

        def prune(stmts):
            keep = []
            for st in stmts:
                if isinstance(st, ast.Assign) and len(st.targets) == 1 and isinstance(st.targets[0], ast.Name) and _pure_alias_value(st.value) and st.targets[0].id not in loads:
                    continue
                for field in ("body", "orelse", "finalbody"):
                    if isinstance(getattr(st, field, None), list) and getattr(st, field) and not isinstance(st, (ast.FunctionDef, ast.ClassDef)):
                        setattr(st, field, prune(getattr(st, field)) or [ast.copy_location(ast.Pass(), st)])
                for h in getattr(st, "handlers", []) or []:
                    h.body = prune(h.body) or [ast.copy_location(ast.Pass(), h)]
                keep.append(st)
            return keep
        fn.body = prune(fn.body) or [ast.copy_location(ast.Pass(), fn)]
    return count[0]


def normalise_counter_updates(fn):
    """`self.a = self.a + k` / `self.a = self.a - k` (k an integer literal) is the augmented assignment `self.a += k` (integers: no in-place semantics)"""
    n = 0
    for st in list(ast.walk(fn)):
        for field in ("body", "orelse", "finalbody"):
            body = getattr(st, field, None)
            if not isinstance(body, list):
                continue
            for i, s in enumerate(body):
                if isinstance(s, ast.Assign) and len(s.targets) == 1 and _self_attr(s.targets[0]) and isinstance(s.value, ast.BinOp) and \
                        isinstance(s.value.op, (ast.Add, ast.Sub)) and _self_attr(s.value.left) and s.value.left.attr == s.targets[0].attr and \
                        isinstance(s.value.right, ast.Constant) and isinstance(s.value.right.value, int) and not isinstance(s.value.right.value, bool):
                    body[i] = ast.copy_location(ast.AugAssign(target=s.targets[0], op=s.value.op, value=s.value.right), s)
                    n += 1
    return n


def _negate(c):
    """logical negation with De Morgan pushed through and/or; comparisons are wrapped, never flipped (NaN)"""
    if isinstance(c, ast.UnaryOp) and isinstance(c.op, ast.Not):
        return c.operand
    if isinstance(c, ast.BoolOp):
        return ast.copy_location(ast.BoolOp(op=ast.And() if isinstance(c.op, ast.Or) else ast.Or(), values=[_negate(v) for v in c.values]), c)
    return ast.copy_location(ast.UnaryOp(op=ast.Not(), operand=c), c)


def normalise_while_true(fn):
    """`while True:` whose body starts with `if C: break` (no else) is `while not C:` followed by the rest of the body"""
    n = 0
    for w in [x for x in ast.walk(fn) if isinstance(x, ast.While)]:
        if isinstance(w.test, ast.Constant) and w.test.value is True and w.body and isinstance(w.body[0], ast.If) and not w.body[0].orelse and \
                len(w.body[0].body) == 1 and isinstance(w.body[0].body[0], ast.Break) and len(w.body) > 1 and not w.orelse:
            w.test = _negate(w.body[0].test)
            w.body = w.body[1:]
            n += 1
    return n


def _writes_of_factory(repo, rel, cdef, cache):
    """method name -> set of attributes of self its transitive closure may write (None when the callee is not a method of the class)"""
    key = (rel, cdef.name)
    if key not in cache:
        try:
            from .access import ClassModel
            cache[key] = ClassModel(repo, rel, getattr(cdef, "_qualname", cdef.name))
        except Exception:
            cache[key] = None
    cm = cache[key]

    def writes_of(name):
        if cm is None or name not in cm.methods:
            return None
        out = set()
        for path in cm.closure(name):
            if path.endswith("()"):
                return None         # calls an object held in an attribute: unknown effect
            out.add(path.split(".")[0])
        return out
    return writes_of


def expand_attr_aliases(repo):
    """apply the three spelling-level normalisations above to every function of the package; returns (reads rewritten, counter updates, loop heads)"""
    tot = [0, 0, 0]
    cm_cache = {}
    for rel, m in repo.modules.items():
        classes = [c for c in ast.walk(m.tree) if isinstance(c, ast.ClassDef)]
        props_of = {}
        for c in classes:
            props_of[id(c)] = frozenset(f.name for f in c.body if isinstance(f, ast.FunctionDef) and any(dotted(d) == "property" for d in f.decorator_list))
        for q, fn in list(m.index.items()):
            if not isinstance(fn, ast.FunctionDef):
                continue
            parent = getattr(fn, "_parent", None)
            props = props_of.get(id(parent), frozenset())
            writes_of = None
            if isinstance(parent, ast.ClassDef):
                writes_of = _writes_of_factory(repo, rel, parent, cm_cache)
            a = expand_attr_aliases_in(fn, props, writes_of)
            b = normalise_counter_updates(fn)
            c = normalise_while_true(fn)
            if a or b or c:
                _annotate(fn, parent)
                tot[0] += a
                tot[1] += b
                tot[2] += c
    return tuple(tot)


# ------------------------------------------------------------------------------------------------
# read-only aliases of another object's attributes in module-level functions (solve_ivp: `status = ode_system.integration_status`)
PURE_CALLS = ("getfullargspec", "signature")
LOCAL_ALIAS_FUNCTIONS = [("desolver/differential_system.py", "solve_ivp")]


def _pure_read(v):
    """Name | <pure>.attr | <pure>[<constant index / slice of constants>] | getfullargspec(<pure>)   -> set of root names, or None"""
    if isinstance(v, ast.Name):
        return {v.id}
    if isinstance(v, ast.Attribute):
        return _pure_read(v.value)
    if isinstance(v, ast.Subscript):
        sl = v.slice
        parts = [sl.lower, sl.upper, sl.step] if isinstance(sl, ast.Slice) else [sl]
        for p_ in parts:
            if p_ is None:
                continue
            if isinstance(p_, ast.UnaryOp) and isinstance(p_.op, ast.USub):
                p_ = p_.operand
            if not (isinstance(p_, ast.Constant) and isinstance(p_.value, int)):
                return None
        return _pure_read(v.value)
    if isinstance(v, ast.Call) and isinstance(v.func, (ast.Attribute, ast.Name)) and (v.func.attr if isinstance(v.func, ast.Attribute) else v.func.id) in PURE_CALLS \
            and len(v.args) == 1 and not v.keywords:
        r = _pure_read(v.args[0])
        return r
    return None


def _root(node):
    while isinstance(node, (ast.Attribute, ast.Subscript, ast.Call)):
        node = node.func if isinstance(node, ast.Call) else node.value
    return node.id if isinstance(node, ast.Name) else None


def expand_local_object_aliases_in(fn):
    """A local bound ONCE to a pure read of another local object (`status = system.integration_status`, `last = system[-1]`, `y_all = system.y`,
    `names = inspect.getfullargspec(f)[0][2:]`) is replaced by that read at every use, provided nothing between the binding and the use can change what
    the read returns: no method call on, store through, or rebinding of the object the read is rooted in (for a use inside a loop that does not contain
    the binding, nothing anywhere in that loop).  Returns the number of reads rewritten."""
    total = 0
    for _ in range(4):
        stores, defs = {}, {}
        params = {a.arg for a in fn.args.posonlyargs + fn.args.args + fn.args.kwonlyargs}
        for n in ast.walk(fn):
            if isinstance(n, ast.Name) and isinstance(n.ctx, (ast.Store, ast.Del)):
                stores[n.id] = stores.get(n.id, 0) + 1
            if isinstance(n, ast.Assign) and len(n.targets) == 1 and isinstance(n.targets[0], ast.Name):
                defs[n.targets[0].id] = n
        done = 0
        for name, st in list(defs.items()):
            if stores.get(name) != 1 or name in params or isinstance(st.value, ast.Name):
                continue
            roots = _pure_read(st.value)
            if not roots or name in roots:
                continue
            if enclosing_function_of(st) is not fn:
                continue
            uses = [n for n in ast.walk(fn) if isinstance(n, ast.Name) and n.id == name and isinstance(n.ctx, ast.Load)]
            if not uses or any(enclosing_function_of(u) is not fn for u in uses):
                continue
            end_def = (st.end_lineno, st.end_col_offset)
            ok = True
            for u in uses:
                if (u.lineno, u.col_offset) <= end_def:
                    ok = False
                    break
                hi = (u.lineno, u.col_offset)
                p_ = u
                while getattr(p_, "_parent", None) is not None and p_ is not fn:
                    p_ = p_._parent
                    if isinstance(p_, (ast.For, ast.While)) and not any(x is st for x in ast.walk(p_)):
                        hi = (p_.end_lineno, p_.end_col_offset)
                for b in ast.walk(fn):
                    pos = (getattr(b, "lineno", None), getattr(b, "col_offset", None))
                    if pos[0] is None or not (end_def < pos < hi):
                        continue
                    if isinstance(b, ast.Call) and isinstance(b.func, ast.Attribute) and _root(b.func) in roots:
                        ok = False
                    elif isinstance(b, (ast.Attribute, ast.Subscript)) and isinstance(b.ctx, (ast.Store, ast.Del)) and _root(b) in roots:
                        ok = False
                    elif isinstance(b, ast.Name) and isinstance(b.ctx, (ast.Store, ast.Del)) and b.id in roots:
                        ok = False
                    elif isinstance(b, ast.Call) and any(isinstance(a, ast.Name) and a.id in roots for a in b.args):
                        ok = False          # the object is handed to a callee, which may change it
                    if not ok:
                        break
                if not ok:
                    break
            if not ok:
                continue
            for u in uses:
                new = _clone(st.value)
                for x in ast.walk(new):
                    for a_ in ("lineno", "col_offset", "end_lineno", "end_col_offset"):
                        if hasattr(u, a_):
                            setattr(x, a_, getattr(u, a_))
                par = u._parent
                for f_, val in ast.iter_fields(par):
                    if val is u:
                        setattr(par, f_, new)
                    elif isinstance(val, list):
                        for i_, x in enumerate(val):
                            if x is u:
                                val[i_] = new
                _annotate(new, par)
                done += 1
            blk = st._parent
            for f_, val in ast.iter_fields(blk):
                if isinstance(val, list) and any(x is st for x in val):
                    val[:] = [x for x in val if x is not st] or [ast.copy_location(ast.Pass(), st)]
                    for x in val:
                        x._parent = blk
        total += done
        if not done:
            break
    return total


def enclosing_function_of(node):
    p_ = getattr(node, "_parent", None)
    while p_ is not None and not isinstance(p_, (ast.FunctionDef, ast.AsyncFunctionDef, ast.Lambda)):
        p_ = getattr(p_, "_parent", None)
    return p_


def expand_local_object_aliases(repo):
    n = 0
    for rel, q in LOCAL_ALIAS_FUNCTIONS:
        fn = repo.maybe(rel, q)
        if fn is not None:
            n += expand_local_object_aliases_in(fn)
    return n


# ------------------------------------------------------------------------------------------------
# `for f, x in zip(F, X)` (statement or comprehension)  ->  `for i, x in enumerate(X)` with f read as F[i]   (the index form the rules are anchored in)
ZIP_PEEL_FUNCTIONS = [("desolver/differential_system.py", "handle_events"), ("desolver/differential_system.py", "OdeSystem.integrate")]


def peel_zip_first_argument_in(fn):
    n_done = 0
    params = {a.arg for a in fn.args.posonlyargs + fn.args.args + fn.args.kwonlyargs}
    counter = [0]

    def rewrite(holder, body_nodes):
        """holder: ast.For or ast.comprehension with .target / .iter"""
        it, tg = holder.iter, holder.target
        if not (isinstance(it, ast.Call) and isinstance(it.func, ast.Name) and it.func.id == "zip" and not it.keywords and len(it.args) >= 2):
            return False
        if not (isinstance(tg, (ast.Tuple, ast.List)) and len(tg.elts) == len(it.args) and all(isinstance(e, ast.Name) for e in tg.elts)):
            return False
        first = it.args[0]
        if not isinstance(first, ast.Name) or first.id in params:
            return False            # sequences handed in by the caller are iterated as they are; only locals built here (ev_f, active_events) are indexed
        var = tg.elts[0].id
        # the peeled variable must only be read in the body
        for b in body_nodes:
            for x in ast.walk(b):
                if isinstance(x, ast.Name) and x.id == var and not isinstance(x.ctx, ast.Load):
                    return False
        counter[0] += 1
        iname = "__zip_i%d" % counter[0]
        rest_args, rest_tg = it.args[1:], tg.elts[1:]
        new_iter_inner = rest_args[0] if len(rest_args) == 1 else ast.Call(func=ast.Name(id="zip", ctx=ast.Load()), args=rest_args, keywords=[])
        new_tg_inner = rest_tg[0] if len(rest_tg) == 1 else ast.Tuple(elts=rest_tg, ctx=ast.Store())
        holder.iter = ast.Call(func=ast.Name(id="enumerate", ctx=ast.Load()), args=[new_iter_inner], keywords=[])
        holder.target = ast.Tuple(elts=[ast.Name(id=iname, ctx=ast.Store()), new_tg_inner], ctx=ast.Store())
        for nd in (holder.iter, holder.target):
            for x in ast.walk(nd):
                ast.copy_location(x, it)

        class R(ast.NodeTransformer):
            def visit_Name(self, n):
                if n.id == var and isinstance(n.ctx, ast.Load):
                    new = ast.Subscript(value=ast.Name(id=first.id, ctx=ast.Load()), slice=ast.Name(id=iname, ctx=ast.Load()), ctx=ast.Load())
                    for x in ast.walk(new):
                        ast.copy_location(x, n)
                    return new
                return n
        for i_, b in enumerate(body_nodes):
            body_nodes[i_] = R().visit(b)
        return True
    for node in list(ast.walk(fn)):
        if isinstance(node, ast.For):
            if rewrite(node, node.body):
                n_done += 1
        elif isinstance(node, (ast.ListComp, ast.GeneratorExp, ast.SetComp)) and len(node.generators) == 1 and not node.generators[0].ifs:
            box = [node.elt]
            if rewrite(node.generators[0], box):
                node.elt = box[0]
                n_done += 1
    if n_done:
        _annotate(fn, getattr(fn, "_parent", None))
    return n_done


def peel_zip_loops(repo):
    n = 0
    for rel, q in ZIP_PEEL_FUNCTIONS:
        fn = repo.maybe(rel, q)
        if fn is not None:
            n += peel_zip_first_argument_in(fn)
    return n


# ------------------------------------------------------------------------------------------------
# named conditions:  `ends_before_last = (t - self.t_eval[-1]) < 0`  ...  `if ends_before_last:`   ->   `if (t - self.t_eval[-1]) < 0:`
NAMED_CONDITION_MODULES = ["desolver/differential_system.py", "desolver/integrators/integrator_types.py", "desolver/integrators/integrator_template.py",
                           "desolver/utilities/optimizer.py", "desolver/utilities/utilities.py", "desolver/utilities/interpolation.py"]


def _is_condition_expr(v):
    if isinstance(v, (ast.Compare, ast.BoolOp)):
        return True
    if isinstance(v, ast.UnaryOp) and isinstance(v.op, ast.Not):
        return True
    if isinstance(v, ast.Call) and isinstance(v.func, ast.Name) and v.func.id in ("isinstance", "callable", "hasattr", "issubclass", "bool", "any", "all"):
        return True
    return False


def expand_named_conditions_in(fn):
    """A read of a local whose every binding is a boolean expression (comparison, and/or/not, isinstance/hasattr/...) is replaced by the expression of the binding that
    reaches it -- the latest binding before the read, in a block enclosing the read, with no other binding of the name in between -- provided nothing between that
    binding and the read can change what the expression evaluates to: no store to a name or attribute the expression reads, no item store, no call (other than pure
    builtins) when the expression reads attributes.  Reads that do not qualify are left alone (and keep their binding).  Returns the number of reads rewritten."""
    total = 0
    for _ in range(3):
        defs = {}
        other_stores = set()
        for n in ast.walk(fn):
            if isinstance(n, ast.Assign) and len(n.targets) == 1 and isinstance(n.targets[0], ast.Name) and _is_condition_expr(n.value):
                defs.setdefault(n.targets[0].id, []).append(n)
        for n in ast.walk(fn):
            if isinstance(n, ast.Name) and isinstance(n.ctx, (ast.Store, ast.Del)) and n.id in defs and not any(d.targets[0] is n for d in defs[n.id]):
                other_stores.add(n.id)
        done = 0
        for name, dlist in list(defs.items()):
            if name in other_stores or any(enclosing_function_of(d) is not fn for d in dlist):
                continue
            uses = [n for n in ast.walk(fn) if isinstance(n, ast.Name) and n.id == name and isinstance(n.ctx, ast.Load)]
            if not uses or any(enclosing_function_of(u) is not fn for u in uses):
                continue
            for u in uses:
                upos = (u.lineno, u.col_offset)
                anc = list(_ancestors(u, None))
                cands = [d for d in dlist if (d.end_lineno, d.end_col_offset) < upos and any(d._parent is a for a in anc)]
                if not cands:
                    continue
                st = max(cands, key=lambda d: (d.lineno, d.col_offset))
                end_def = (st.end_lineno, st.end_col_offset)
                if any(end_def < (d.lineno, d.col_offset) < upos for d in dlist if d is not st):
                    continue        # another binding of the name lies between (in some branch): the reaching definition is not unique
                if any(isinstance(a, (ast.For, ast.While)) and not any(x is st for x in ast.walk(a)) for a in _ancestors(u, fn)):
                    continue        # read inside a loop the binding is outside of
                reads_names = {x.id for x in ast.walk(st.value) if isinstance(x, ast.Name)}
                reads_attrs = {x.attr for x in ast.walk(st.value) if isinstance(x, ast.Attribute)}
                reads_items = any(isinstance(x, ast.Subscript) for x in ast.walk(st.value)) or any(
                    isinstance(x, ast.Call) and isinstance(x.func, ast.Attribute) and x.func.attr == "get" for x in ast.walk(st.value))
                ok = True
                stmt_u = u
                while not isinstance(stmt_u, ast.stmt):
                    stmt_u = stmt_u._parent
                own_targets = set()
                if isinstance(stmt_u, (ast.Assign, ast.AugAssign, ast.AnnAssign)):     # the targets of the reading statement are stored AFTER its value is evaluated
                    for t_ in (stmt_u.targets if isinstance(stmt_u, ast.Assign) else [stmt_u.target]):
                        own_targets |= {id(x) for x in ast.walk(t_)}
                for b in ast.walk(fn):
                    pos = (getattr(b, "lineno", None), getattr(b, "col_offset", None))
                    if pos[0] is None or not (end_def < pos < upos) or id(b) in own_targets:
                        continue
                    if isinstance(b, ast.Name) and isinstance(b.ctx, (ast.Store, ast.Del)) and b.id in reads_names:
                        ok = False
                    elif isinstance(b, ast.Attribute) and isinstance(b.ctx, (ast.Store, ast.Del)) and b.attr in reads_attrs:
                        ok = False
                    elif isinstance(b, ast.Subscript) and isinstance(b.ctx, (ast.Store, ast.Del)) and (reads_items or reads_attrs):
                        ok = False
                    elif isinstance(b, ast.Call) and (reads_attrs or reads_items) and not (isinstance(b.func, ast.Name) and b.func.id in (
                            "isinstance", "callable", "hasattr", "len", "bool", "issubclass")) and b is not u._parent:
                        ok = False      # a call between binding and read may change the attributes / items the condition reads
                    if not ok:
                        break
                if not ok:
                    continue
                new = _clone(st.value)
                for x in ast.walk(new):
                    for a_ in ("lineno", "col_offset", "end_lineno", "end_col_offset"):
                        if hasattr(u, a_):
                            setattr(x, a_, getattr(u, a_))
                par = u._parent
                for f_, val in ast.iter_fields(par):
                    if val is u:
                        setattr(par, f_, new)
                    elif isinstance(val, list):
                        for i_, x in enumerate(val):
                            if x is u:
                                val[i_] = new
                _annotate(new, par)
                done += 1
            # bindings nobody reads any more are dropped
            left = [n for n in ast.walk(fn) if isinstance(n, ast.Name) and n.id == name and isinstance(n.ctx, ast.Load)]
            if not left:
                for st in dlist:
                    blk = st._parent
                    for f_, val in ast.iter_fields(blk):
                        if isinstance(val, list) and any(x is st for x in val):
                            val[:] = [x for x in val if x is not st] or [ast.copy_location(ast.Pass(), st)]
        total += done
        if not done:
            break
    return total


def _ancestors(node, stop):
    p_ = getattr(node, "_parent", None)
    while p_ is not None and (stop is None or p_ is not stop):
        yield p_
        p_ = getattr(p_, "_parent", None)


def expand_named_conditions(repo):
    n = 0
    for rel in NAMED_CONDITION_MODULES:
        mod = repo.modules.get(rel)
        if mod is None:
            continue
        for q, fn in list(mod.index.items()):
            if isinstance(fn, (ast.FunctionDef, ast.AsyncFunctionDef)):
                n += expand_named_conditions_in(fn)
    return n
