"""Helper inlining: a behaviour-preserving `extract method` refactor must not hide the analysed statements from the
rules.  For the functions the models are anchored in (table INLINE) every call  self.<m>(...) / <Class>.<m>(...) / <nested def>(...)
of a helper that is NOT part of the interface the models know (the keep set) is expanded in the syntax tree before any rule runs:

    targets = self.m(a, b)      ->   <body of m with parameters replaced by a, b and `return e` replaced by `targets = e`>

Only helpers whose returns are in tail position (possibly under if/else) are expanded; anything else is left as a call (and the
rule that needed the statements then fails closed with `anchor missing`).  On a tree without such helpers nothing is rewritten.
The expanded statements keep the helper's line numbers, so reports still point at real source lines."""
import ast

from .front import dotted, _annotate, clone as _clone

# (module, qualname) -> names of methods that are modelled as calls (never expanded)
DS = "desolver/differential_system.py"
IT = "desolver/integrators/integrator_types.py"
OPT = "desolver/utilities/optimizer.py"
UT = "desolver/utilities/utilities.py"
INTERP = "desolver/utilities/interpolation.py"
INLINE = {
    (DS, "OdeSystem.integrate"): {"integrate", "integrator", "get_step_interpolant", "__allocate_soln_space", "__alloc_space_steps",
                                  "__fix_dt_dir", "__trim_soln_space", "initialise_integrator", "reset"},
    (DS, "OdeSystem.reset"): {"initialise_integrator", "__allocate_soln_space", "__trim_soln_space"},
    (DS, "OdeSystem.__getitem__"): set(),
    (DS, "DiffRHS.jac"): {"__call__", "rhs"},
    (DS, "DiffRHS.__call__"): {"rhs"},
    (DS, "DenseOutput.add_interpolant"): {"add_interpolant"},
    (DS, "DenseOutput.remove_interpolant"): set(),
    (DS, "DenseOutput.__call__"): {"find_interval", "find_interval_vec"},
    (DS, "DenseOutput.grad"): {"find_interval", "find_interval_vec"},
    (DS, "DenseOutput.find_interval"): set(),
    (DS, "DenseOutput.find_interval_vec"): set(),
    (DS, "handle_events"): {"__get_ev_f"},
    (DS, "prepare_events"): set(),
    (OPT, "brentsroot"): {"f"},
    (OPT, "brentsrootvec"): {"f", "_f"},
    (OPT, "newtontrustregion"): {"f", "jac", "fun", "fun_jac", "f_vec", "jac_vec"},
    (OPT, "hybrj"): {"f", "jac", "fun", "fun_jac", "f_vec", "jac_vec"},
    (OPT, "nonlinear_roots"): {"f", "jac", "fun", "fun_jac", "__fun_jac", "f_vec", "jac_vec"},
    (UT, "search_bisection"): set(),
    (UT, "search_bisection_vec"): set(),
    (UT, "JacobianWrapper.estimate"): {"rhs"},
    (UT, "JacobianWrapper.richardson"): {"estimate", "rhs"},
    (UT, "JacobianWrapper.adaptive_richardson"): {"estimate", "rhs", "check_converged"},
    (UT, "JacobianWrapper.__call__"): {"estimate", "rhs", "richardson", "adaptive_richardson"},
    (INTERP, "CubicHermiteInterp.__call__"): {"__affine_transform"},
    (INTERP, "CubicHermiteInterp.grad"): {"__affine_transform"},
    (IT, "RungeKuttaIntegrator.__call__"): {"step", "update_timestep", "get_error_estimate"},
    (IT, "RungeKuttaIntegrator.step"): {"algebraic_system", "algebraic_system_jacobian"},
    (IT, "RungeKuttaIntegrator.get_error_estimate"): set(),
    (IT, "ExplicitSymplecticIntegrator.__call__"): {"step", "update_timestep", "get_error_estimate"},
    (IT, "ExplicitSymplecticIntegrator.step"): set(),
    (IT, "generate_richardson_integrator.RichardsonExtrapolatedIntegrator.__call__"): {"step", "update_timestep", "get_error_estimate", "check_converged",
                                                                                     "subdiv_step", "adaptive_richardson"},
}
MAX_DEPTH = 3


def _contains(node_or_list, types):
    nodes = node_or_list if isinstance(node_or_list, list) else [node_or_list]
    for n in nodes:
        for x in _walk_same_function(n):
            if isinstance(x, types):
                return True
    return False


def _walk_same_function(node):
    todo = [node]
    while todo:
        n = todo.pop()
        yield n
        for ch in ast.iter_child_nodes(n):
            if isinstance(ch, (ast.FunctionDef, ast.AsyncFunctionDef, ast.Lambda, ast.ClassDef)):
                continue
            todo.append(ch)


class _Unsupported(Exception):
    pass


def _tail(stmts, k):
    """rewrite a statement list so that `return e` (tail position only) becomes k(e); returns (new list, terminated?)"""
    out = []
    for i, s in enumerate(stmts):
        if isinstance(s, ast.Return):
            out += k(s)
            return out, True
        if not _contains(s, ast.Return):
            out.append(s)
            continue
        if isinstance(s, ast.If):
            b, bt = _tail(s.body, k)
            o, ot = _tail(s.orelse, k)
            rest = stmts[i + 1:]
            if bt and ot:
                if rest:
                    pass    # unreachable code after the if: dropped
                out.append(_mkif(s, b, o))
                return out, True
            if _contains(b, ast.Return) and not bt or _contains(o, ast.Return) and not ot:
                raise _Unsupported("return on some but not all paths of a nested branch")
            r, rt = _tail(rest, k)
            if bt:
                out.append(_mkif(s, b, o + r))
            else:
                out.append(_mkif(s, b + r, o))
            return out, rt
        raise _Unsupported("return inside %s" % type(s).__name__)
    return out, False


def _mkif(orig, body, orelse):
    n = ast.If(test=orig.test, body=body or [ast.copy_location(ast.Pass(), orig)], orelse=orelse)
    return ast.copy_location(n, orig)


class _Subst(ast.NodeTransformer):
    def __init__(self, env, rename):
        self.env, self.rename = env, rename

    def visit_Name(self, n):
        if n.id in self.env and isinstance(n.ctx, ast.Load):
            return _clone(self.env[n.id])
        if n.id in self.rename:
            return ast.copy_location(ast.Name(id=self.rename[n.id], ctx=n.ctx), n)
        return n

    def visit_FunctionDef(self, n):
        return n        # closures are not rewritten (a helper defining closures over its parameters is not expanded, see _expandable)

    visit_Lambda = visit_FunctionDef


def _assigned_names(fn):
    out = set()
    for x in _walk_same_function(fn):
        if isinstance(x, ast.Name) and isinstance(x.ctx, (ast.Store, ast.Del)):
            out.add(x.id)
        if isinstance(x, (ast.FunctionDef, ast.AsyncFunctionDef, ast.ClassDef)) and x is not fn:
            out.add(x.name)
    for ch in ast.walk(fn):
        if isinstance(ch, (ast.FunctionDef, ast.ClassDef)) and ch is not fn:
            out.add(ch.name)
    return out


def _resolve(call, owner_cls, module, caller, keep, local_defs):
    """FunctionDef of the helper called by ``call`` (None when it is not an expandable helper), and whether it takes self"""
    f = call.func
    name = None
    bound = False
    if isinstance(f, ast.Attribute) and isinstance(f.value, ast.Name) and f.value.id in ("self", "cls"):
        name, bound = f.attr, True
    elif isinstance(f, ast.Attribute) and isinstance(f.value, ast.Name) and owner_cls is not None and f.value.id == owner_cls.name:
        name, bound = f.attr, False
    elif isinstance(f, ast.Name) and f.id in local_defs:
        h = local_defs[f.id]
        return (h, False) if f.id not in keep else (None, False)
    elif isinstance(f, ast.Name) and f.id.startswith("_") and f.id not in keep and isinstance(module.index.get(f.id), ast.FunctionDef):
        h = module.index[f.id]          # private module-level helper
        return (h, False) if h is not caller and not h.decorator_list else (None, False)
    if name is None or name in keep or owner_cls is None:
        return None, False
    h = _find_method(owner_cls, module, name)
    if h is None or h is caller:
        return None, False
    decs = [dotted(d) for d in h.decorator_list]
    if any(d not in ("staticmethod", "classmethod") for d in decs):
        return None, False
    takes_self = "staticmethod" not in decs
    return h, takes_self


def _find_method(cls, module, name, seen=()):
    for st in cls.body:
        if isinstance(st, ast.FunctionDef) and st.name == name:
            return st
    for b in cls.bases:
        d = dotted(b)
        base = module.index.get(d) if d else None
        if isinstance(base, ast.ClassDef) and base not in seen:
            r = _find_method(base, module, name, seen + (cls,))
            if r is not None:
                return r
    return None


def _expandable(h):
    if _contains(h.body, (ast.Yield, ast.YieldFrom, ast.Await, ast.Global, ast.Nonlocal)):
        return False
    if h.args.vararg or h.args.kwarg:
        return False
    return True


def _bind(h, call, takes_self):
    params = [a.arg for a in h.args.posonlyargs + h.args.args]
    defaults = dict(zip(params[len(params) - len(h.args.defaults):], h.args.defaults))
    for a, d in zip(h.args.kwonlyargs, h.args.kw_defaults):
        params.append(a.arg)
        if d is not None:
            defaults[a.arg] = d
    if takes_self:
        params = params[1:]
    if any(isinstance(a, ast.Starred) for a in call.args) or any(k.arg is None for k in call.keywords):
        raise _Unsupported("star arguments")
    env = {}
    for p, a in zip(params, call.args):
        env[p] = a
    if len(call.args) > len(params):
        raise _Unsupported("too many arguments")
    for k in call.keywords:
        if k.arg not in params or k.arg in env:
            raise _Unsupported("bad keyword")
        env[k.arg] = k.value
    for p in params:
        if p not in env:
            if p not in defaults:
                raise _Unsupported("missing argument %s" % p)
            env[p] = defaults[p]
    return env


def _same_names(target, value):
    """target structure equals the returned expression structure (names only): `a, b = helper()` with `return a, b`"""
    if isinstance(target, ast.Name) and isinstance(value, ast.Name):
        return target.id == value.id
    if isinstance(target, ast.Tuple) and isinstance(value, ast.Tuple) and len(target.elts) == len(value.elts):
        return all(_same_names(t, v) for t, v in zip(target.elts, value.elts))
    return False


def _names_of(t):
    return {x.id for x in ast.walk(t) if isinstance(x, ast.Name)}


def _split_tuple_assign(targets, value, loc):
    """`a, b = e1, e2` as `a = e1; b = e2` when no later element reads an earlier target (then the two forms are the same program);
    `x = x` elements are dropped"""
    whole = [ast.copy_location(ast.Assign(targets=targets, value=value, lineno=loc.lineno), loc)]
    if len(targets) != 1 or not isinstance(targets[0], ast.Tuple) or not isinstance(value, ast.Tuple) or len(targets[0].elts) != len(value.elts):
        return whole
    out, written = [], set()
    for t, v in zip(targets[0].elts, value.elts):
        if isinstance(t, ast.Starred) or isinstance(v, ast.Starred):
            return whole
        if {x.id for x in ast.walk(v) if isinstance(x, ast.Name)} & written:
            return whole
        if isinstance(t, ast.Name) and isinstance(v, ast.Name) and t.id == v.id:
            continue
        written |= {x.id for x in ast.walk(t) if isinstance(x, ast.Name)}
        if not isinstance(t, ast.Name):
            # attribute / subscript targets may alias what later values read: keep the tuple form
            return whole
        out.append(ast.copy_location(ast.Assign(targets=[t], value=v, lineno=loc.lineno), loc))
    return out


def expand_statement(st, ctx, depth):
    """list of statements replacing ``st`` (or None when st is not a helper call statement / the helper is not expandable)"""
    if isinstance(st, ast.Assign) and isinstance(st.value, ast.Call):
        call, kind = st.value, "assign"
    elif isinstance(st, ast.Expr) and isinstance(st.value, ast.Call):
        call, kind = st.value, "expr"
    elif isinstance(st, ast.Return) and isinstance(st.value, ast.Call):
        call, kind = st.value, "return"
    else:
        return None
    h, takes_self = _resolve(call, ctx["cls"], ctx["module"], ctx["caller"], ctx["keep"], ctx["local_defs"])
    if h is None or not _expandable(h) or depth > MAX_DEPTH:
        return None
    try:
        env = _bind(h, call, takes_self)
        hb = _clone(h.body)
        # docstring
        if hb and isinstance(hb[0], ast.Expr) and isinstance(hb[0].value, ast.Constant) and isinstance(hb[0].value.value, str):
            hb = hb[1:]
        assigned = _assigned_names(h)
        rets = [r for s in hb for r in _walk_same_function(s) if isinstance(r, ast.Return)]
        aligned = set()
        if kind == "assign" and len(st.targets) == 1 and rets and all(r.value is not None and _same_names(st.targets[0], r.value) for r in rets):
            aligned = _names_of(st.targets[0])
        pre = []
        subst = {}
        rename = {}
        for p, a in env.items():
            if p in assigned or _contains(hb, (ast.FunctionDef, ast.Lambda)):
                # parameter rebound in the helper (or captured by a closure): bind it with an explicit assignment
                new = p if p in aligned else "%s__%s" % (p, h.name.strip("_"))
                rename[p] = new
                pre.append(ast.copy_location(ast.Assign(targets=[ast.Name(id=new, ctx=ast.Store())], value=_clone(a), lineno=st.lineno), st))
            else:
                subst[p] = a
        for loc in assigned - set(env):
            if loc in ctx["caller_names"] and loc not in aligned:
                rename[loc] = "%s__%s" % (loc, h.name.strip("_"))
        hb = [_Subst(subst, rename).visit(s) for s in hb]

        def k(ret):
            v = ret.value if ret.value is not None else ast.copy_location(ast.Constant(value=None), ret)
            if kind == "assign":
                if ret.value is not None and len(st.targets) == 1 and _same_names(st.targets[0], _Subst({}, {v_: k_ for k_, v_ in rename.items()}).visit(_clone(ret.value))) \
                        and _same_names(st.targets[0], ret.value):
                    return []       # `a, b = a, b`: nothing to do
                return _split_tuple_assign(_clone(st.targets), v, ret)
            if kind == "return":
                return [ast.copy_location(ast.Return(value=v), ret)]
            if isinstance(v, ast.Constant) or isinstance(v, (ast.Name, ast.Attribute)):
                return []
            return [ast.copy_location(ast.Expr(value=v), ret)]
        body, term = _tail(hb, k)
        if not term and kind in ("assign", "return"):
            class _R:       # implicit `return None`
                value = None
                lineno = (hb[-1].lineno if hb else st.lineno)
                col_offset = 0
                end_lineno = lineno
                end_col_offset = 0
            fake = ast.Return(value=None)
            ast.copy_location(fake, hb[-1] if hb else st)
            body += k(fake)
        out = pre + body
        if not out:
            out = [ast.copy_location(ast.Pass(), st)]
        for s in out:
            ast.fix_missing_locations(s)
        return out
    except _Unsupported:
        return None


_counter = [0]


def _hoist(st, ctx):
    """helper calls nested inside the value of an assignment / return / expression statement (evaluated unconditionally) are moved
    into temporaries in front of the statement, so that expand_statement can expand them"""
    if not isinstance(st, (ast.Assign, ast.AugAssign, ast.Return, ast.Expr)) or st.value is None:
        return []
    top = st.value
    found = []

    def visit(n, parent, field, idx):
        if isinstance(n, (ast.Lambda, ast.ListComp, ast.SetComp, ast.DictComp, ast.GeneratorExp, ast.IfExp, ast.BoolOp)):
            return
        for fld, val in ast.iter_fields(n):
            if isinstance(val, list):
                for i, ch in enumerate(val):
                    if isinstance(ch, ast.AST):
                        visit(ch, n, fld, i)
            elif isinstance(val, ast.AST):
                visit(val, n, fld, None)
        if isinstance(n, ast.Call) and n is not top:
            h, _ = _resolve(n, ctx["cls"], ctx["module"], ctx["caller"], ctx["keep"], ctx["local_defs"])
            if h is not None and _expandable(h):
                found.append((n, parent, field, idx))
    visit(top, st, "value", None)
    pre = []
    for n, parent, field, idx in found:
        _counter[0] += 1
        tmp = "inl%d__%s" % (_counter[0], (dotted(n.func) or "f").split(".")[-1].strip("_"))
        pre.append(ast.copy_location(ast.Assign(targets=[ast.Name(id=tmp, ctx=ast.Store())], value=n, lineno=n.lineno), n))
        ref = ast.copy_location(ast.Name(id=tmp, ctx=ast.Load()), n)
        if idx is None:
            setattr(parent, field, ref)
        else:
            getattr(parent, field)[idx] = ref
    for p_ in pre:
        ast.fix_missing_locations(p_)
    return pre


def expand_function(fn, module, keep):
    """new FunctionDef with helper calls expanded, or ``fn`` itself when there is nothing to expand"""
    cls = fn._parent if isinstance(getattr(fn, "_parent", None), ast.ClassDef) else None
    new = _clone(fn)
    ctx = dict(cls=cls, module=module, caller=fn, keep=keep, caller_names={x.id for x in _walk_same_function(fn) if isinstance(x, ast.Name)},
               local_defs={})
    changed = [False]

    def block(stmts, depth, local_defs):
        out = []
        local_defs = dict(local_defs)
        for s in stmts:
            if isinstance(s, ast.FunctionDef):
                local_defs[s.name] = s
                out.append(s)
                continue
            ctx["local_defs"] = {n: d for n, d in local_defs.items() if _closed(d, ctx)}
            hoisted = _hoist(s, ctx)
            if hoisted:
                changed[0] = True
                out += block(hoisted + [s], depth, local_defs)
                continue
            rep = expand_statement(s, ctx, depth)
            if rep is not None:
                changed[0] = True
                out += block(rep, depth + 1, local_defs)
                continue
            for field in ("body", "orelse", "finalbody"):
                sub = getattr(s, field, None)
                if isinstance(sub, list) and sub and isinstance(sub[0], ast.stmt):
                    setattr(s, field, block(sub, depth, local_defs))
            for hnd in getattr(s, "handlers", []) or []:
                hnd.body = block(hnd.body, depth, local_defs)
            out.append(s)
        return out
    new.body = block(new.body, 0, {})
    if not changed[0]:
        return fn
    # nested helper definitions that are no longer called can stay; they are inert
    new._qualname = getattr(fn, "_qualname", None)
    new._module = getattr(fn, "_module", None)
    new._inlined = True
    return new


def _closed(d, ctx):
    """a nested def is expanded only when it does not rebind names of the enclosing function (no nonlocal) -- reads of enclosing
    variables are fine because the expansion happens in the same scope"""
    return not _contains(d.body, (ast.Nonlocal, ast.Global, ast.Yield, ast.YieldFrom))


def apply(repo):
    """expand helpers in every function of table INLINE present in ``repo`` (in place: the class body and the module index are updated)"""
    n = 0
    for (rel, qual), keep in INLINE.items():
        m = repo.modules.get(rel)
        if m is None or qual not in m.index:
            continue
        fn = m.index[qual]
        if not isinstance(fn, ast.FunctionDef):
            continue
        new = expand_function(fn, m, keep)
        if new is fn:
            continue
        parent = fn._parent
        for field in ("body", "orelse", "finalbody"):
            lst = getattr(parent, field, None)
            if isinstance(lst, list) and fn in lst:
                lst[lst.index(fn)] = new
        _annotate(new, parent)
        m.index[qual] = new
        # re-index nested definitions of the new node
        for q in [q for q in m.index if q.startswith(qual + ".")]:
            del m.index[q]
        m._index(new, qual + ".")
        n += 1
    return n


# ------------------------------------------------------------------------------------------------
def expand_module_aliases(repo):
    """`xp = D.ar_numpy` at the top of a function is a spelling, not a computation: a local bound exactly once (anywhere in the function, never a parameter,
    never rebound, not global/nonlocal) to a dotted path whose root is a module-level import alias is replaced by that path wherever it is read, nested
    closures included.  Returns the number of functions rewritten (0 on a tree without such aliases)."""
    n = 0
    for rel, m in repo.modules.items():
        roots = set(m.aliases)
        for q, fn in list(m.index.items()):
            if not isinstance(fn, ast.FunctionDef):
                continue
            params = {a.arg for a in fn.args.posonlyargs + fn.args.args + fn.args.kwonlyargs}
            if fn.args.vararg:
                params.add(fn.args.vararg.arg)
            if fn.args.kwarg:
                params.add(fn.args.kwarg.arg)
            stores = {}
            for x in _walk_same_function(fn):
                if isinstance(x, ast.Name) and isinstance(x.ctx, (ast.Store, ast.Del)):
                    stores.setdefault(x.id, []).append(x)
            cands = {}
            for st in _walk_same_function(fn):
                if isinstance(st, ast.Assign) and len(st.targets) == 1 and isinstance(st.targets[0], ast.Name) and isinstance(st.value, ast.Attribute):
                    nm = st.targets[0].id
                    d = dotted(st.value)
                    if d and d.split(".")[0] in roots and d.split(".")[0] not in stores and nm not in params and len(stores.get(nm, [])) == 1 \
                            and isinstance(getattr(st, "_parent", None), ast.FunctionDef) and st._parent is fn:
                        cands[nm] = (st, st.value)
            if not cands:
                continue
            # a nested function that rebinds the name shadows it: skip such names
            for sub in ast.walk(fn):
                if isinstance(sub, (ast.FunctionDef, ast.Lambda)) and sub is not fn:
                    for x in ast.walk(sub):
                        if isinstance(x, ast.Name) and isinstance(x.ctx, ast.Store) and x.id in cands:
                            cands.pop(x.id, None)
                        if isinstance(x, ast.arg) and x.arg in cands:
                            cands.pop(x.arg, None)
            if not cands:
                continue

            class T(ast.NodeTransformer):
                def visit_Name(self, node):
                    if isinstance(node.ctx, ast.Load) and node.id in cands:
                        new = _clone(cands[node.id][1])
                        ast.copy_location(new, node)
                        for sub in ast.walk(new):
                            ast.copy_location(sub, node)
                        return new
                    return node
            defs = {id(v[0]) for v in cands.values()}
            for field in ("body",):
                fn.body = [T().visit(st) for st in fn.body if id(st) not in defs] or [ast.copy_location(ast.Pass(), fn)]
            _annotate(fn, fn._parent)
            n += 1
    return n
