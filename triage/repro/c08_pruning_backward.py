"""C08.2: with dense output off the oldest kept interpolant is pruned by position 0, which for backward runs is the newest."""
import numpy as np, desolver as de
def rhs(t, y): return np.array([y[1], -y[0]])
def ev(t, y): return y[0] - 0.5
for tf in (3.0, -3.0):
    for dense in (True, False):
        s = de.OdeSystem(rhs, y0=np.array([1., 0.]), t=(0., tf), dt=0.25, dense_output=dense); s.method = "RK4"
        s.integrate(events=ev)
        print("tf=%g dense=%s events at %s (exact +-1.047198)" % (tf, dense, [round(float(e.t), 6) for e in s.events]))
