"""C08.1 / C14.1: success of the Brent solvers is |f(b)| <= tol (absolute): whether an event is found depends on its unit."""
import numpy as np, desolver as de
from desolver.utilities import optimizer as opt
def rhs(t, y): return np.array([y[1], -y[0]])
for scale in (1.0, 1000.0):
    def ev(t, y, scale=scale): return scale * (y[0] - 0.5)
    s = de.OdeSystem(rhs, y0=np.array([1., 0.]), t=(0., 6.), dt=0.25, dense_output=True); s.method = "RK4"
    s.integrate(events=ev)
    print("event scale %g: found %d crossings (2 expected) at %s" % (scale, len(s.events), [round(float(e.t), 4) for e in s.events]))
def ev(t, y): return y[0] - 0.5
s = de.OdeSystem(rhs, y0=np.array([np.cos(1000.), -np.sin(1000.)]), t=(1000., 1030.), dt=0.25, dense_output=True); s.method = "RK4"
s.integrate(events=ev); print("unit-scale event on (1000,1030): found %d crossings (9 or 10 expected)" % len(s.events))
f = lambda x: 1e6 * (x - 0.3)
print("brentsroot 1e6*(x-0.3) on [0,1]:", opt.brentsroot(f, [np.float64(0.), np.float64(1.)]))
