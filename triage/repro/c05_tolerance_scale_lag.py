import numpy as np, desolver as de, desolver.backend as D
from desolver.integrators import generate_richardson_integrator, RK45CKSolver
def rhs(t,y,**kw): return -y
for meth,label in [(RK45CKSolver,"RK45CK"),(generate_richardson_integrator(RK45CKSolver, richardson_iter=2),"Richardson(RK45CK,2)")]:
    for rtol,atol in [(1e-3,1e-12),(1e-6,1e-12),(1e-6,1e-6)]:
        a=de.OdeSystem(rhs,y0=np.array([1.0]),dense_output=False,t=(0,25.0),dt=0.1,rtol=rtol,atol=atol)
        a.method=meth
        a.integrate()
        t=a.t; y=a.y[:,0]; ex=np.exp(-t)
        ratio=np.max(np.abs(y-ex)/(atol+rtol*np.abs(ex)))
        print(label,rtol,atol,"steps",len(t),"worst err/(atol+rtol|y|) = %.3g"%ratio)
