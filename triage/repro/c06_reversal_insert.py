"""Known finding C06.4: add_interpolant decides 'insert at the front' by comparing with the LAST element of t_eval.
Forward to 1, then integrate(0.5) (a continued call in the other direction) leaves t_eval unsorted and dense queries
are answered by the wrong piece."""
import numpy as np, desolver as de
def rhs(t, y): return np.array([y[1], -y[0]])
s = de.OdeSystem(rhs, y0=np.array([1., 0.]), t=(0., 1.), dt=0.25, dense_output=True); s.method = "RK4"
s.integrate(); s.integrate(0.5)
print("t:", s.t); print("t_eval:", [float(x) for x in s.sol.t_eval])
for q in (0.1, 0.3, 0.6, 0.9):
    print("sol(%.1f)[0] = %.6f   exact %.6f   err %.2e" % (q, s.sol(q)[0], np.cos(q), abs(s.sol(q)[0] - np.cos(q))))
