"""Known finding C15.1/C15.2: step-size tests count as success; nonlinear_roots' hybrj branch returns the step norm in the residual slot."""
import numpy as np
from desolver.utilities import optimizer as opt
F = lambda x: np.arctan(x) + 2.0          # no real root: |F| >= 2 - pi/2 = 0.43
J = lambda x: np.atleast_2d(1.0 / (1.0 + x ** 2))
x, (ok, dxn, it, Fv) = opt.hybrj(F, np.array([1.0]), J)
print("hybrj: success=%s  x=%s  ||F||=%.3f  last step norm=%.3g" % (bool(ok), x, np.linalg.norm(Fv), float(dxn)))
x, info = opt.newtontrustregion(F, np.array([1.0]), J)
print("newtontrustregion: success=%s ||F||=%.3f" % (bool(info[0]), float(info[-1])))
x, info = opt.nonlinear_roots(F, np.array([1.0], dtype=np.longdouble), J)
print("nonlinear_roots (longdouble -> hybrj path): success=%s last slot=%.3g  true ||F||=%.3f" % (bool(info[0]), float(info[-1]), float(np.linalg.norm(F(x)))))
