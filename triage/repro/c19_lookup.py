"""C19.2/C19.3: time lookups bisect the history-ordered grid (wrong for backward runs) and compare idx / idx+1 for forward ones."""
import numpy as np, desolver as de
def rhs(t, y): return np.array([y[1], -y[0]])
for tf in (2.0, -2.0):
    s = de.OdeSystem(rhs, y0=np.array([1., 0.]), t=(0., tf), dt=0.25); s.method = "RK4"; s.integrate()
    sg = np.sign(tf)
    for q in (0.3, 1.1, 1.9, 2.0):
        print("run (0,%g): lookup %5.2f -> t=%5.2f" % (tf, sg * q, float(s[sg * q].t)), end=" | ")
    sl = s[sg * 0.0:sg * 2.0]
    print("\n   slice [%g:%g] has %d of %d rows" % (sg * 0.0, sg * 2.0, len(sl.t), len(s.t)))
