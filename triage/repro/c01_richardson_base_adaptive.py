"""C01.6: the Richardson wrapper's `base.is_adaptive = False` leaves adaptive base methods adaptive (setter stores the flag inverted)."""
import numpy as np, desolver as de
from desolver import integrators as I
def rhs(t, y): return np.array([y[1], -100.0 * y[0]])
R = I.generate_richardson_integrator(I.RK45CKSolver, richardson_iter=3)
integ = R((2,), dtype=np.dtype('float64'), rtol=1e-10, atol=1e-10)
print("base is_adaptive after the wrapper switched it off:", [b.is_adaptive for b in integ.basis_integrators])
y0 = np.array([1.0, 0.0]); h = np.float64(0.5)
f = de.DiffRHS(rhs)
# spans covered by the three levels of the tableau for one requested step h
for m, n in ((0, 1), (1, 2), (2, 4)):
    dt, (dtz, dyz) = integ.subdiv_step(m, f, np.float64(0.0), y0, h, {}, n)
    print("level %d: %d sub-steps of %.4f requested, span actually covered %.6f" % (m, n, h / n, float(dtz)))
