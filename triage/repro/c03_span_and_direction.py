"""C03 findings 5 and 6 (fixed): spans away from zero took one step; integrate(t) against the system span zig-zagged."""
import numpy as np, desolver as de
def rhs(t, y): return np.array([y[1], -y[0]])
for span in [(-5., 1.), (-10., -5.), (10., 5.), (0., 2.)]:
    s = de.OdeSystem(rhs, y0=np.array([1., 0.]), t=span, dt=0.1); s.method = "RK4"; s.integrate()
    d = np.diff(s.t)
    print(span, "steps", len(s.t) - 1, "max|step|", np.abs(d).max(), "monotone", bool(np.all(d * np.sign(span[1] - span[0]) > 0)), "end", s.t[-1])
s = de.OdeSystem(rhs, y0=np.array([1., 0.]), t=(0., 1.), dt=0.1); s.method = "RK4"; s.integrate(-0.35)
print("integrate(-0.35) on a (0,1) system:", s.t)
