"""C04.1 finding (signed comparisons in the symplectic branch of the Richardson wrapper): backward run."""
import sys, signal, numpy as np, desolver as de
from desolver import integrators as I
def rhs(t, y): return np.array([y[1], -y[0]])
def handler(*a): print("TIMEOUT: still looping after 20 s"); sys.exit(3)
signal.signal(signal.SIGALRM, handler); signal.alarm(20)
R = I.generate_richardson_integrator(I.ABAs5o6HSolver, richardson_iter=3)
for span in [(0., 2.), (0., -2.)]:
    s = de.OdeSystem(rhs, y0=np.array([1., 0.]), t=span, dt=0.5, rtol=1e-9, atol=1e-9)
    s.set_method(R)
    s.integrate()
    print(span, "steps", len(s.t) - 1, "t_end", s.t[-1], "err", abs(s.y[-1][0] - np.cos(2.0)), "min/max |step|", np.abs(np.diff(s.t)).min(), np.abs(np.diff(s.t)).max())
