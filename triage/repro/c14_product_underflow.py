"""C14 'whatever the scale': before fix (sign tests on products) the product f(a)*f(b) underflowed for small function values.
Run with PYTHONPATH=<checkout>.  exit 0 = ok, exit 1 = defect present."""
import sys
import numpy as np
from desolver.utilities.optimizer import brentsroot, brentsrootvec

bad = 0
f32 = np.float32
for scale, p in [(1e-6, 7), (1e-6, 9), (1.0, 9)]:
    f = lambda x: f32(scale) * (x - f32(0.3)) ** p
    x, ok = brentsroot(f, [f32(-1), f32(1)], tol=f32(1e-4))
    err = abs(float(x) - 0.3)
    print("float32 f = %g (x-0.3)^%d: root %.6f success %s |x - r| = %.2e (tol 1e-4)" % (scale, p, float(x), bool(ok), err))
    bad += bool(ok) and err > 2e-4
g = lambda x: f32(1e-25) * (f32(2.0) + x)          # positive on the whole bracket
x, ok = brentsroot(g, [f32(-1), f32(1)], tol=f32(1e-4))
print("float32 positive function 1e-25 (2 + x): success =", bool(ok), "x =", float(x))
bad += bool(ok)
h = lambda x: 1e-170 * (2.0 + x)
x, ok = brentsroot(h, [np.float64(-1), np.float64(1)], tol=1e-8)
print("float64 positive function 1e-170 (2 + x): success =", bool(ok))
bad += bool(ok)
lin = lambda x: f32(1e-30) * (x - f32(0.3))
xv, okv = brentsrootvec([lin], [np.array([f32(-1)]), np.array([f32(1)])], tol=f32(1e-4))
print("float32 vector solver on 1e-30 (x - 0.3): success =", bool(okv[0]), "x =", float(xv[0]))
bad += not bool(okv[0])
sys.exit(1 if bad else 0)
