import numpy as np, desolver as de
from desolver.integrators import generate_richardson_integrator
import desolver.integrators as di
def rhs(t, y, k): return np.array([y[1], -k*y[0]])
def run(method):
    a = de.OdeSystem(rhs, y0=np.array([1.0, 0.0]), dense_output=True, t=(0, 2.0), dt=0.05, rtol=1e-9, atol=1e-12, constants=dict(k=1.0))
    a.method = method
    a.integrate(1.0)
    n1 = len(a.t)
    a.constants = dict(k=4.0)
    a.integrate(2.0)
    return a, n1
bad = 0
for m in ["RK45", "RK4", "DOPRI45", "RK8713M", "RadauIIA5", generate_richardson_integrator(di.RK4Solver, 3), generate_richardson_integrator(di.RK45CKSolver, 2)]:
    a, n1 = run(m)
    y1 = a.y[n1-1]; t1 = a.t[n1-1]
    g = a.sol.grad(t1 + 1e-13*0) if hasattr(a.sol, "grad") else None
    # slope of the piece that starts at t1: evaluate just inside
    h = a.t[n1]-a.t[n1-1]
    tm = t1 + 0.5*h
    w = 2.0
    s = tm - t1
    ex = np.array([y1[0]*np.cos(w*s) + y1[1]/w*np.sin(w*s), -y1[0]*w*np.sin(w*s) + y1[1]*np.cos(w*s)])
    err = np.abs(a.sol(tm)-ex).max()
    ok = err < 50*h**4 + 1e-7
    bad += not ok
    print("%-40s h=%.3g mid-step dense err %.3g  (h^4=%.2g) %s" % (str(m)[:40], h, err, h**4, "ok" if ok else "VIOLATION"))
raise SystemExit(1 if bad else 0)
