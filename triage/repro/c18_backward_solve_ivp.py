"""C18.5 / C18.6: solve_ivp with a decreasing t_span: max_step clipping reverses the step; every t_eval is rejected."""
import numpy as np, desolver as de
def rhs(t, y): return np.array([y[1], -y[0]])
r = de.solve_ivp(rhs, (0., -2.), np.array([1., 0.]), method="RK45", max_step=0.1, rtol=1e-6, atol=1e-6)
print("max_step run: t[0], t[-1] =", r.t[0], r.t[-1], " n =", len(r.t), " message:", r.message, " max|step| =", np.abs(np.diff(r.t)).max())
s = de.OdeSystem(rhs, y0=np.array([1., 0.]), t=(0., -2.), dt=0.1, rtol=1e-6, atol=1e-6); s.method = "RK45"; s.integrate()
print("object API reaches", s.t[-1])
try:
    r = de.solve_ivp(rhs, (0., -2.), np.array([1., 0.]), method="RK45", t_eval=[-0.5, -1.0, -1.5], rtol=1e-8, atol=1e-8)
    print("t_eval run: t =", r.t, " y0 err", np.abs(r.y[0] - np.cos(r.t)).max())
except Exception as e:
    print("t_eval run:", type(e).__name__, e)
