"""Known finding C04.2: a non-adaptive implicit method (no embedded estimator) has the step controller applied
with a zero error estimate, so the recorded steps grow although a fixed step was requested."""
import numpy as np, desolver as de
def rhs(t, y): return -y
s = de.OdeSystem(rhs, y0=np.array([1.0]), t=(0., 4.), dt=0.05)
s.method = "BackwardEuler"; s.integrate()
print("BackwardEuler is_adaptive:", s.integrator.is_adaptive, " requested dt 0.05, recorded steps:", np.diff(s.t)[:6])
