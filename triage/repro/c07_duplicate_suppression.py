"""C07.2: last_occurrence is indexed by the position among the events active in a step, not by the event."""
import numpy as np, desolver as de
def rhs(t, y): return np.array([y[1], -y[0]])
def e1(t, y): return t - 0.3
def e2(t, y): return t - 0.5
s = de.OdeSystem(rhs, y0=np.array([1., 0.]), t=(0., 1.), dt=0.25, dense_output=True); s.method = "RK4"
s.integrate(events=[e1, e2])
print([(round(float(e.t), 6), e.event.__name__) for e in s.events])
