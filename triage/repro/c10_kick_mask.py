"""C10 'all kick masks': before fix 0d3f93a a user-supplied kick mask never reached the splitting integrator (OdeSystem tested the
property `is_implicit` on the CLASS, always truthy) and constructing an integrator with an explicit mask raised AttributeError (D.astype).
Run with PYTHONPATH=<checkout>.  exit 0 = mask honoured, exit 1 = defect present."""
import sys
import numpy as np
import desolver as de
from desolver.integrators import available_methods

bad = 0
cls = available_methods(False)["BABs9o7HSolver"]
mask = np.array([False, True, False, True])
try:
    integ = cls((4,), dtype=np.float64, staggered_mask=mask)
    print("direct construction: kick_mask =", integ.kick_mask)
    bad += not np.array_equal(integ.kick_mask.astype(bool), mask)
except Exception as e:
    print("direct construction with a mask raised", type(e).__name__, e)
    bad += 1


def rhs(t, y):                       # interleaved layout (q1, p1, q2, p2)
    return np.array([y[1], -y[0], y[3], -y[2]])


a = de.OdeSystem(rhs, y0=np.array([1., 0., 0.5, 0.]), t=(0, 10), dt=0.1)
a.method = "BABs9o7HSolver"
a.set_kick_vars(mask)
print("mask asked for:", mask, " mask used by the integrator:", a.integrator.kick_mask)
bad += not np.array_equal(np.asarray(a.integrator.kick_mask).astype(bool), mask)
if bad:
    sys.exit(1)

# second defect (fixed separately): set_kick_vars while a non-splitting method is selected, then switch to a splitting method
b = de.OdeSystem(rhs, y0=np.array([1., 0., 0.5, 0.]), t=(0, 10), dt=0.1)
b.set_kick_vars(mask)
b.method = "BABs9o7HSolver"
print("set_kick_vars then method change: integrator mask", b.integrator.kick_mask)
if not np.array_equal(np.asarray(b.integrator.kick_mask).astype(bool), mask):
    sys.exit(1)
