"""C06.2 / C06.3: dense output for backward runs picks the neighbouring piece; reused end slopes."""
import numpy as np, desolver as de
def rhs(t, y): return np.array([y[1], -y[0]])
for tf in (2.0, -2.0):
    s = de.OdeSystem(rhs, y0=np.array([1., 0.]), t=(0., tf), dt=0.25, dense_output=True); s.method = "RK4"; s.integrate()
    q = np.linspace(0, tf, 41)
    err_s = max(abs(s.sol(x)[0] - np.cos(x)) for x in q)
    err_v = np.max(np.abs(s.sol(q)[:, 0] - np.cos(q)))
    print("RK4 (0,%g): max dense error scalar %.3e vector %.3e" % (tf, err_s, err_v))
# splitting method: final slope of every piece
s = de.OdeSystem(rhs, y0=np.array([1., 0.]), t=(0., 1.), dt=0.25, dense_output=True); s.method = "ABAS5O6H"; s.integrate()
for p in s.sol.y_interpolants:
    print("splitting piece [%.2f,%.2f]: |m1 - rhs(t1,p1)| = %.3e" % (float(p.t0), float(p.t1), np.linalg.norm(p.m1 - rhs(p.t1, p.p1))))
# RK: after a terminal event the continued run starts at the event state; is the start slope the rhs there?
def ev(t, y): return y[0] - 0.5
ev.is_terminal = True
s = de.OdeSystem(rhs, y0=np.array([1., 0.]), t=(0., 2.), dt=0.25, dense_output=True); s.method = "RK4"
s.integrate(events=ev); n0 = len(s.sol.y_interpolants); s.integrate()
for p in s.sol.y_interpolants:
    d = np.linalg.norm(p.m0 - rhs(p.t0, p.p0))
    if d > 1e-12: print("RK piece [%.4f,%.4f]: |m0 - rhs(t0,p0)| = %.3e" % (float(p.t0), float(p.t1), d))
print("done")
