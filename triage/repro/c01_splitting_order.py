"""Known finding C01.4: ABAs5o6H / BABs9o7H attain local order 4 (error ~ h^5) on a generic separable
Hamiltonian (pendulum), although they declare order 6 / 7.  Run: /venv/bin/python c01_splitting_order.py"""
import numpy as np, desolver as de
from desolver import integrators as I

def rhs(t, y):
    return np.array([y[1], -np.sin(y[0])])

def one_step(method, h, y0):
    integ = method((2,), dtype=np.dtype('float64'))
    dt, (dT, dY) = integ(de.DiffRHS(rhs), np.float64(0.0), y0.copy(), {}, np.float64(h))
    return y0 + dY

def ref(h, y0):
    s = de.OdeSystem(rhs, y0=y0.copy(), t=(0, h), dt=h/64, rtol=1e-14, atol=1e-14)
    s.method = "RK1412"; s.integrate(); return s.y[-1]

y0 = np.array([1.3, 0.7])
for m in (I.ABAs5o6HSolver, I.BABs9o7HSolver):
    errs = []
    for h in (0.2, 0.1, 0.05):
        errs.append(np.linalg.norm(one_step(m, h, y0) - ref(h, y0)))
    slopes = [np.log2(errs[i]/errs[i+1]) for i in range(2)]
    print(m.__name__, "declared", m.__order__, "local errors", errs, "slopes (p+1)", slopes)
