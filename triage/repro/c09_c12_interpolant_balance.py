"""C09.3 / C12.4: (a) after a terminal event the interpolant of the rolled-back step stays in the dense output;
(b) an event function that raises leaves the interpolant of a step that was un-committed."""
import numpy as np, desolver as de
def rhs(t, y): return np.array([y[1], -y[0]])
def ev(t, y): return y[0] - 0.5          # cos t = 0.5 at t = pi/3
ev.is_terminal = True
s = de.OdeSystem(rhs, y0=np.array([1., 0.]), t=(0., 2.), dt=0.25, dense_output=True); s.method = "RK4"
s.integrate(events=ev)
te = np.array([float(x) for x in s.sol.t_eval])
print("(a) recorded t:", s.t)
print("    sol.t_eval:", te, " sorted:", bool(np.all(np.diff(te) > 0)), " pieces:", len(s.sol.y_interpolants), " steps:", len(s.t) - 1)
q = np.linspace(0, s.t[-1], 41)
print("    max dense error on [0, t_e]:", max(abs(s.sol(x)[0] - np.cos(x)) for x in q))
calls = {"n": 0}
def ev2(t, y):
    calls["n"] += 1
    if calls["n"] > 40: raise RuntimeError("boom")
    return y[0] + 5.0
s2 = de.OdeSystem(rhs, y0=np.array([1., 0.]), t=(0., 2.), dt=0.25, dense_output=True); s2.method = "RK4"
try:
    s2.integrate(events=ev2)
except Exception as e:
    print("(b) raised:", type(e).__name__)
print("    steps recorded:", len(s2.t) - 1, " pieces in sol:", len(s2.sol.y_interpolants), " last t:", s2.t[-1], " last t_eval:", float(s2.sol.t_eval[-1]))
