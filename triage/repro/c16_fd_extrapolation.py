"""C16 'agrees with the analytic Jacobian to near the accuracy its tolerances request ... all base orders': before the fix the Richardson
tableau of JacobianWrapper used factor**(base_order*n) - 1, right only for base_order 2.  Run with PYTHONPATH=<checkout>.
exit 0 = every base order reaches 1e-11 relative error on this smooth scalar function; exit 1 = defect present."""
import sys
import numpy as np
from desolver.utilities.utilities import JacobianWrapper

f = lambda x: np.exp(np.sin(3 * x)) * x ** 3
df = lambda x: np.exp(np.sin(3 * x)) * (3 * np.cos(3 * x) * x ** 3 + 3 * x ** 2)
bad = 0
for bo in (2, 3, 4, 5, 6):
    for x0 in (0.3, 1e-3):
        v = float(JacobianWrapper(f, base_order=bo, flat=True)(np.array([x0])))
        rel = abs((v - df(x0)) / df(x0))
        print("base_order %d  x=%g  relative error %.2e (requested tolerance 4 eps = 9e-16)" % (bo, x0, rel))
        bad += rel > 1e-11
sys.exit(1 if bad else 0)
