"""C16.1: jac(); hook; unhook; jac() calls None.  C16.3/C20.1: set_jac_base_order differentiates the raw rhs (uncounted, flat layout)."""
import numpy as np, desolver as de
def rhs(t, y): return np.array([y[1], -y[0] * t])
r = de.DiffRHS(rhs); y = np.array([1., 2.])
r.jac(0.5, y); r.hook_jacobian_call(lambda t, y: np.eye(2)); r.unhook_jacobian_call()
try:
    print("after unhook:", r.jac(0.5, y))
except Exception as e:
    print("after unhook:", type(e).__name__, e)
r2 = de.DiffRHS(rhs); r2.jac(0.5, y); n0 = r2.nfev
r2.set_jac_base_order(3); J = r2.jac(0.0, y)
print("after set_jac_base_order: nfev delta", r2.nfev - n0, " jacobian shape", np.shape(J))
