#!/bin/bash
# usage: run_suite.sh <dir> <njobs> : runs the pinned suite in <dir> (a checkout of /repo), summary in <dir>/../<name>.suite.log
d=$1; n=${2:-5}
cd "$d" && PYTHONPATH="$d" /venv/bin/python -m pytest -q -p no:cacheprovider --timeout=900 --continue-on-collection-errors -n "$n" -x -q 2>&1 | tail -15 > "/tmp/$(basename $d).suite.log"
echo "exit=$?" >> "/tmp/$(basename $d).suite.log"
