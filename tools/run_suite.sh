#!/bin/bash
# usage: run_suite.sh <dir> <njobs> : runs the pinned suite (unedited) in <dir> (a checkout of /repo);
# summary line and exit status go to /tmp/<basename>.suite.log
d=$1; n=${2:-5}
out="/tmp/$(basename $d).suite.full"
cd "$d" && PYTHONPATH="$d" /venv/bin/python -m pytest -q -p no:cacheprovider --timeout=900 --continue-on-collection-errors --disable-warnings -n "$n" > "$out" 2>&1
rc=$?
{ grep -E "passed|failed|error" "$out" | tail -5; echo "pytest_exit=$rc"; } > "/tmp/$(basename $d).suite.log"
rm -f "$out"
