#!/bin/bash
# full regression of the machinery: clean-tree checks, self-validation variants, seeded changes, refactor fixtures
cd /verif
echo "== clean tree"; for i in $(seq -w 1 20); do ./check C$i >/dev/null 2>&1; echo -n "C$i:$? "; done; echo
echo "== self-validation"; /venv/bin/python tools/selftest.py 2>&1 | tail -1
echo "== seeded changes"; /venv/bin/python tools/seeded_run.py 2>&1 | tail -1
echo "== refactor fixtures"; tools/refactors_run.sh 2>&1 | grep -v conda
