#!/bin/bash
# development aid: run one check (or all) against a seeded change applied to a scratch worktree (never touches /repo)
# usage: try_seed.sh <seeded name> [Cxx ...]
cd "$(dirname "$0")/.."; n=$1; shift
wt=$(mktemp -d -u /tmp/trywt_XXXX); git -C /repo worktree add -q --detach $wt HEAD || exit 2
git -C $wt apply $(realpath seeded/$n/patch.diff) || { echo "patch does not apply"; git -C /repo worktree remove --force $wt; exit 2; }
props=${@:-$(seq -f "C%02g" 1 20)}
for p in $props; do ./check $p --repo $wt 2>&1 | grep -E " rule |ANALYSIS-ERROR|^\[" | grep -v KNOWN-FINDING | cut -c1-420; done
git -C /repo worktree remove --force $wt; git -C /repo worktree prune
