#!/venv/bin/python
"""Parallel version of tools/refactors_run.sh: every behaviour-preserving refactor fixture (refactors/<name>/patch.diff) is applied to a scratch copy
of /repo's HEAD and all twenty quick checks must exit 0 on it.   usage: refactors_par.py [name-substring ...]"""
import concurrent.futures as cf
import os
import shutil
import sys

VERIF = os.path.dirname(os.path.dirname(os.path.abspath(__file__)))
sys.path.insert(0, VERIF)
sys.dont_write_bytecode = True
from tools import seeded_par  # noqa: E402


def one(name):
    tmp, err = seeded_par.scratch_with_patch(os.path.join(VERIF, "refactors", name, "patch.diff"))
    if tmp is None:
        return name, None, err
    try:
        return name, seeded_par.run_props(tmp), ""
    finally:
        shutil.rmtree(tmp, ignore_errors=True)


def main():
    flt = sys.argv[1:]
    names = [n for n in sorted(os.listdir(os.path.join(VERIF, "refactors")))
             if os.path.exists(os.path.join(VERIF, "refactors", n, "patch.diff")) and (not flt or any(f in n for f in flt))]
    bad = 0
    with cf.ProcessPoolExecutor(max_workers=16) as ex:
        for name, fired, err in ex.map(one, names):
            if fired is None:
                print("%s: STALE FIXTURE (%s)" % (name, err[:120])); bad += 1
            elif not fired:
                print("%s: all 20 checks exit 0" % name)
            else:
                bad += 1
                print("%s: NOT SILENT" % name)
                for p, r in fired.items():
                    for ln in r["lines"]:
                        print("    %s rc=%d %s" % (p, r["rc"], ln[:300]))
    print("%d fixtures, %d not silent" % (len(names), bad))
    sys.exit(1 if bad else 0)


if __name__ == "__main__":
    main()
