#!/bin/bash
# every behaviour-preserving refactor fixture must leave all 20 checks at exit 0: each patch is applied to a scratch worktree of /repo (removed afterwards)
cd "$(dirname "$0")/.."; rc=0
for d in refactors/*/; do
  n=$(basename $d); wt=$(mktemp -d -u /tmp/refwt_XXXX)
  git -C /repo worktree add -q --detach $wt HEAD || { echo "$n: worktree failed"; rc=1; continue; }
  if git -C $wt apply $(realpath $d/patch.diff) 2>/dev/null; then
    out=$(tools/refcheck_dir.sh $wt 2>&1 | grep -v conda); echo "$n: $(echo "$out" | tail -1 | sed "s|$wt|<scratch>|")"
    echo "$out" | grep -q "all 20 checks exit 0" || { rc=1; echo "$out" | head -20; }
  else echo "$n: patch does not apply to HEAD (stale fixture)"; fi
  git -C /repo worktree remove --force $wt; done
git -C /repo worktree prune
exit $rc
