#!/bin/bash
# usage: refcheck.sh <patch.diff> : applies a (supposedly behaviour-preserving) patch to /repo, runs all quick checks, restores /repo.
# prints the checks that do not exit 0.
set -u
P=$(realpath "$1"); cd /verif
if [ -n "$(git -C /repo status --porcelain)" ]; then echo "refusing: /repo not clean"; exit 2; fi
git -C /repo apply "$P" || { echo "patch does not apply"; exit 2; }
bad=0
for i in $(seq -w 1 20); do
  out=$(./check C$i --tier quick 2>&1); rc=$?
  if [ $rc -ne 0 ]; then bad=1; echo "== C$i rc=$rc"; echo "$out" | grep -v "KNOWN-FINDING\|conda" | grep " rule \|ANALYSIS-ERROR\|Traceback\|Error" | cut -c1-330 | head -8; fi
done
git -C /repo checkout -- .
for i in $(seq -w 1 20); do ./check C$i --tier quick >/dev/null 2>&1; done
[ $bad -eq 0 ] && echo "all 20 checks exit 0 on the refactored tree"
