#!/venv/bin/python
"""Re-run every quick check against each kept seeded change (/verif/seeded/<name>/patch.diff):
git -C /repo apply <patch>; ./check Cxx; git -C /repo checkout -- .   Updates meta.json (checks_fired, detected...) and prints a table.
usage: seeded_run.py [name-substring]"""
import json
import os
import subprocess
import sys

VERIF = os.path.dirname(os.path.dirname(os.path.abspath(__file__)))


def sh(cmd, cwd=None):
    p = subprocess.run(cmd, shell=True, cwd=cwd, stdout=subprocess.PIPE, stderr=subprocess.STDOUT, text=True)
    return p.returncode, p.stdout


def main():
    flt = sys.argv[1] if len(sys.argv) > 1 else ""
    if sh("git -C /repo status --porcelain")[1].strip():
        print("refusing: /repo working tree not clean")
        sys.exit(2)
    rows = []
    for name in sorted(os.listdir(os.path.join(VERIF, "seeded"))):
        d = os.path.join(VERIF, "seeded", name)
        if flt not in name or not os.path.exists(os.path.join(d, "patch.diff")):
            continue
        meta = json.load(open(os.path.join(d, "meta.json")))
        rc, o = sh("git -C /repo apply %s" % os.path.join(d, "patch.diff"))
        fired = {}
        try:
            if rc != 0:
                rows.append((name, meta["property"], "PATCH DOES NOT APPLY", ""))
                continue
            for i in range(1, 21):
                pid = "C%02d" % i
                rc2, txt = sh("./check %s --tier quick" % pid, cwd=VERIF)
                if rc2 != 0:
                    rules = sorted({ln.split(" rule ")[1].split(":")[0] for ln in txt.splitlines() if " rule " in ln and "KNOWN-FINDING" not in ln})
                    fired[pid] = dict(rc=rc2, rules=rules, lines=[ln[:300] for ln in txt.splitlines() if " rule " in ln and "KNOWN-FINDING" not in ln][:4])
        finally:
            sh("git -C /repo checkout -- .")
        meta["checks_fired"] = fired
        meta["detected"] = any(r["rc"] == 1 for r in fired.values())
        meta["detected_by_own_property"] = meta["property"] in fired and fired[meta["property"]]["rc"] == 1
        meta["checked_at_repo_head"] = sh("git -C /repo rev-parse --short HEAD")[1].strip()
        json.dump(meta, open(os.path.join(d, "meta.json"), "w"), indent=1)
        rows.append((name, meta["property"], "own" if meta["detected_by_own_property"] else ("other" if meta["detected"] else "MISSED"),
                     " ".join("%s:%s" % (p, ",".join(r["rules"]) or "rc%d" % r["rc"]) for p, r in fired.items())))
    for r in rows:
        print("%-34s %-4s %-7s %s" % r)
    # restore evidence of the clean tree
    for i in range(1, 21):
        sh("./check C%02d --tier quick" % i, cwd=VERIF)
    missed = [r for r in rows if r[2] in ("MISSED", "PATCH DOES NOT APPLY")]
    print("%d seeded changes, %d detected by the check of their own property, %d detected only by another property's check, %d missed" % (
        len(rows), sum(1 for r in rows if r[2] == "own"), sum(1 for r in rows if r[2] == "other"), len(missed)))


if __name__ == "__main__":
    main()
