#!/bin/bash
# run the 20 quick checks against a scratch tree (a worktree with a refactor applied) without touching /repo: expect exit 0 everywhere
root=$(realpath "$1"); cd "$(dirname "$0")/.."; bad=0
for i in $(seq -w 1 20); do
  out=$(./check C$i --repo "$root" 2>&1); rc=$?
  if [ $rc -ne 0 ]; then bad=1; echo "== C$i rc=$rc"; echo "$out" | grep -E " rule |ANALYSIS-ERROR|Error" | grep -v KNOWN-FINDING | head -6 | cut -c1-330; fi
done
[ $bad -eq 0 ] && echo "all 20 checks exit 0 on $root"
