#!/bin/bash
# verify several sub-agent deliveries at once (scratch mode, /repo untouched):  round_verify.sh <round> Cxx=name [Cyy=name ...]
cd "$(dirname "$0")/.."; rnd=$1; shift
for kv in "$@"; do p=${kv%%=*}; n=${kv#*=}
  ( /venv/bin/python tools/seed.py ${rnd}_${p}_${n} $p /tmp/$rnd/out_$p "$(tr '\n' ' ' </tmp/$rnd/out_$p/needs.txt)" --scratch > /tmp/$rnd/verify_$p.log 2>&1 ) &
done; wait
for kv in "$@"; do p=${kv%%=*}; echo "== $p"; grep -E '"demo_|suite_summary|"detected|fired' /tmp/$rnd/verify_$p.log; done
