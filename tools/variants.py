"""Catalogue of self-validation variants (see tools/selftest.py).  Textual edits keyed on the current
tree; a variant whose anchor text has gone is reported STALE."""

EXP = "desolver/integrators/explicit_integration_schemes.py"
IMP = "desolver/integrators/implicit_integration_schemes.py"
ITY = "desolver/integrators/integrator_types.py"
RKM = "desolver/integrators/components/runge_kutta_methods.py"
TPL = "desolver/integrators/integrator_template.py"
IUT = "desolver/integrators/utilities.py"
DS = "desolver/differential_system.py"
OPT = "desolver/utilities/optimizer.py"
UTL = "desolver/utilities/utilities.py"
INT = "desolver/utilities/interpolation.py"

VARIANTS = []


def V(id, prop, expect, *edits, count=1):
    VARIANTS.append(dict(id=id, prop=prop, expect=expect, edits=list(edits), count=count))


# ---- C01 -----------------------------------------------------------------------------------------
V("C01-a-digit", "C01", "C01.2", (EXP, "175/512", "175/513"))
V("C01-b-swaprows", "C01", "C01.2", (EXP,
  "        [[0.0, 35/384, 0.0, 500/1113, 125/192, -2187/6784, 11/84, 0.0],\n         [0.0, 5179/57600, 0.0, 7571/16695, 393/640, -92097/339200, 187/2100, 1/40]]",
  "        [[0.0, 5179/57600, 0.0, 7571/16695, 393/640, -92097/339200, 187/2100, 1/40],\n         [0.0, 35/384, 0.0, 500/1113, 125/192, -2187/6784, 11/84, 0.0]]"))
V("C01-c-gauss-sign", "C01", "C01.2", (IMP, "[0.5, 5 / 36 + s / 24, 2 / 9, 5 / 36 - s / 24]", "[0.5, 5 / 36 - s / 24, 2 / 9, 5 / 36 + s / 24]"))
V("C01-d-order-bump", "C01", "C01.2", (EXP, "    __order__ = 4.0\n    \n    __alt_names__ = (\"Explicit RK4\"", "    __order__ = 5.0\n    \n    __alt_names__ = (\"Explicit RK4\""))
V("C01-e-kick-scale", "C01", "C01.4", (EXP, "0.351166139915740498],\n       [ 0.                  ,  0.3785799280065606", "0.351517306055656238],\n       [ 0.                  ,  0.3785799280065606"))
V("C01-f-neville-plus", "C01", "C01.5", (ITY, "2.0 ** (n + self.basis_order - 1) - 1)", "2.0 ** (n + self.basis_order - 1) + 1)"))
V("C01-f2-neville-old", "C01", "C01.5", (ITY, "2.0 ** (n + self.basis_order - 1) - 1)", "(1 << n) - 1)"))
V("C01-f3-return-entry", "C01", "C01.5", (ITY, "return timestep, (timestep, self.stage_values[m - 1, n - 1])", "return timestep, (timestep, self.stage_values[m, 0])"))
V("C01-g-estimator", "C01", "C01.3", (IMP, "[0, -0.5, 2.0, -0.5]", "[0, -0.5, 2.0, 0.5]"))
V("C01-h-rowsum", "C01", "C01.2", (EXP, "[0.3, 3/40, 9/40, 0.0, 0.0, 0.0, 0.0, 0.0]", "[0.35, 3/40, 9/40, 0.0, 0.0, 0.0, 0.0, 0.0]"))
V("C01-i-propagate-row1", "C01", "C01.2", (ITY, "self.dState = timestep * D.ar_numpy.sum(self.stage_values * self.tableau_final[0, 1:], axis=-1)",
                                          "self.dState = timestep * D.ar_numpy.sum(self.stage_values * self.tableau_final[-1, 1:], axis=-1)"))
V("C01-j-subdiv-nodiv", "C01", "C01.5", (ITY, "dtstep = timestep / num_intervals", "dtstep = timestep / (num_intervals + 1)"))
V("C01-s-decimal", "C01", "silent", (EXP, "[0.2, 0.2, 0.0, 0.0, 0.0, 0.0, 0.0, 0.0]", "[1/5, 1/5, 0.0, 0.0, 0.0, 0.0, 0.0, 0.0]"))
V("C01-s-copy-literal", "C01", "silent", (EXP, "tableau_intermediate = numpy.copy(RK45CKSolver.tableau_intermediate)",
                                         "tableau_intermediate = numpy.array(RK45CKSolver.tableau_intermediate)"))
V("C01-s-neville-equiv", "C01", "silent", (ITY, "2.0 ** (n + self.basis_order - 1) - 1)", "2.0 ** (self.basis_order + n - 1) - 1.0)"))

# ---- C10 -----------------------------------------------------------------------------------------
V("C10-a-palindrome", "C10", "C10.3", (EXP,
  "        [ 0.                  ,  0.10907642985488271 ,  0.                  ],\n        [ 0.                  ,  0.                  ,  0.31970548287359174 ],\n        [ 0.                  , -0.013886035680471514,  0.                  ],",
  "        [ 0.                  , -0.013886035680471514,  0.                  ],\n        [ 0.                  ,  0.                  ,  0.31970548287359174 ],\n        [ 0.                  ,  0.10907642985488271 ,  0.                  ],"))
V("C10-b-radau-flag", "C10", "C10.1", (IMP, "class RadauIIA5(RungeKuttaIntegrator):\n    \n    __order__ = 5.0\n\n    __alt_names__ = tuple()\n\n    symplectic = False",
                                      "class RadauIIA5(RungeKuttaIntegrator):\n    \n    __order__ = 5.0\n\n    __alt_names__ = tuple()\n\n    symplectic = True"))
V("C10-c-gauss-perturb", "C10", "C10.1", (IMP, "[[0.5 - s / 6, 0.25, 0.25 - s / 6],", "[[0.5 - s / 6, 0.25, 0.25 - s / 6.000001],"))
V("C10-d-both-columns", "C10", "C10.3", (EXP, "[[0.5, 0,   0.5],\n         [0,   1.0, 0  ],", "[[0.5, 0.25,   0.5],\n         [0,   0.5, 0  ],"))
V("C10-e-mask", "C10", "C10.4", (ITY, "self.drift_mask = 1.0 - self.kick_mask", "self.drift_mask = 1.0 + 0.0 * self.kick_mask"))
V("C10-f-stale-state", "C10", "C10.4", (ITY, "aux = timestep * rhs(current_time, initial_state + self.dState, **constants)", "aux = timestep * rhs(current_time, initial_state, **constants)"))
V("C10-g-same-col", "C10", "C10.4", (ITY, "self.tableau_intermediate[stage, 2] * self.kick_mask", "self.tableau_intermediate[stage, 1] * self.kick_mask"))
V("C10-s-reorder", "C10", "silent", (ITY, "self.tableau_intermediate[stage, 1] * self.drift_mask + self.tableau_intermediate[stage, 2] * self.kick_mask",
                                    "self.kick_mask * self.tableau_intermediate[stage, 2] + self.drift_mask * self.tableau_intermediate[stage, 1]"))

# ---- C11 -----------------------------------------------------------------------------------------
V("C11-a-backward-euler-sign", "C11", ["C11.1", "C11.2"], (IMP, "        [[1.0, 1.0]], dtype=numpy.float64\n    )\n\n    tableau_final = numpy.array(\n        [[0, 1.0]], dtype=numpy.float64\n    )\n\n\nclass ImplicitMidpoint",
                                                          "        [[1.0, -1.0]], dtype=numpy.float64\n    )\n\n    tableau_final = numpy.array(\n        [[0, 1.0]], dtype=numpy.float64\n    )\n\n\nclass ImplicitMidpoint"))
V("C01-k-lobattoC2-sign", "C01", ["C01.2"], (IMP, "[[0.0, 0.5, -0.5],\n         [1.0, 0.5, 0.5]]", "[[0.0, 0.5, 0.5],\n         [1.0, 0.5, 0.5]]"))
V("C11-c-theta", "C11", ["C11.1"], (IMP, "        [[0.5, 0.5]], dtype=numpy.float64", "        [[0.4, 0.4]], dtype=numpy.float64"))
V("C11-d-explicit-in-implicit", "C11", ["C11.0"], (IMP, "[[0, 0, 0],\n         [1.0, 0.5, 0.5]], dtype=numpy.float64\n    )\n\n    tableau_final = numpy.array(\n        [[0, 0.5, 0.5]], dtype=numpy.float64\n    )\n\n\nclass LobattoIIIA4",
                                                  "[[0, 0, 0],\n         [1.0, 1.0, 0.0]], dtype=numpy.float64\n    )\n\n    tableau_final = numpy.array(\n        [[0, 0.5, 0.5]], dtype=numpy.float64\n    )\n\n\nclass LobattoIIIA4"))
V("C11-s-fraction", "C11", "silent", (IMP, "[[1 / 3, 5 / 12, -1 / 12],", "[[1 / 3, 10 / 24, -1 / 12],"))

# ---- C17 -----------------------------------------------------------------------------------------
V("C17-a-h01", "C17", "C17.1", (INT, "h01 = -2 * t3 + 3 * t2\n        h11 = t3 - t2\n\n        return h00 * self.p0 + h10 * self.trange * self.m0 + h01 * self.p1 + h11 * self.trange * self.m1\n\n    def grad",
                               "h01 = -2 * t3 + 2 * t2\n        h11 = t3 - t2\n\n        return h00 * self.p0 + h10 * self.trange * self.m0 + h01 * self.p1 + h11 * self.trange * self.m1\n\n    def grad"))
V("C17-b-grad", "C17", "C17.2", (INT, "t3 = 3 * (t - self.tshift)", "t3 = 2 * (t - self.tshift)"))
V("C17-s-bisect-lt-equiv", "C17", "silent", (UTL, "    if val <= array[jlower]:\n        return jlower\n    elif val >= array[jupper]:", "    if val < array[jlower]:\n        return jlower\n    elif val >= array[jupper]:"))
V("C17-d-bisect-final", "C17", "C17.4", (UTL, "        if array[jlower] < val:\n            jlower = jupper", "        if array[jlower] <= val:\n            jlower = jupper"))
V("C17-e-slots", "C17", "C17.0", (INT, "self.m0 = D.ar_numpy.copy(m0)\n        self.m1 = D.ar_numpy.copy(m1)", "self.m0 = D.ar_numpy.copy(m1)\n        self.m1 = D.ar_numpy.copy(m0)"))
V("C17-f-trange", "C17", "C17.0", (INT, "return self.t1 - self.t0", "return self.t0 - self.t1"))
V("C17-g-early", "C17", "C17.3", (INT, "        elif t == 1.0:\n            return self.p1", "        elif t == 1.0:\n            return self.p0"))
V("C17-h-missing-range", "C17", "C17.1", (INT, "h10 * self.trange * self.m0 + h01 * self.p1 + h11 * self.trange * self.m1\n\n    def grad", "h10 * self.m0 + h01 * self.p1 + h11 * self.trange * self.m1\n\n    def grad"))
V("C17-s-horner", "C17", "silent", (INT, "h00 = 2 * t3 - 3 * t2 + 1\n        h10 = t3 - 2 * t2 + t", "h00 = (2 * t - 3) * t2 + 1\n        h10 = t * (t2 - 2 * t + 1)"))
V("C17-s-bisect-rename", "C17", "silent", (UTL, "        jmid = (jupper + jlower) // 2\n        if (val >= array[jmid]):\n            jlower = jmid\n        else:\n            jupper = jmid",
                                          "        jmid = (jlower + jupper) // 2\n        if not (val < array[jmid]):\n            jlower = jmid\n        else:\n            jupper = jmid"))

# ---- C02 -----------------------------------------------------------------------------------------
V("C02-a-slice2", "C02", ["C02.1", "C02.2"], (RKM, "stage_coeffs = rk_tableau[stage, 1:]", "stage_coeffs = rk_tableau[stage, 2:]"))
V("C02-b-drop-h", "C02", "C02.2", (RKM, "intermediate_dstate = timestep * D.ar_numpy.sum(", "intermediate_dstate = D.ar_numpy.sum("))
V("C02-c-store0", "C02", "C02.2", (RKM, "intermediate_stages_out[...,stage] = intermediate_rhs", "intermediate_stages_out[...,0] = intermediate_rhs"))
V("C02-d-no-newton-redo", "C02", "C02.4", (ITY,
  "                    if self.is_implicit and not self.solver_dict.get(\"newton_iteration_success\"):\n                        redo_step = True\n                        timestep = timestep * 0.8\n                    if not redo_step:",
  "                    if not redo_step:"))
V("C02-d2-no-newton-first", "C02", "C02.4", (ITY,
  "            if self.is_implicit and not self.solver_dict.get(\"newton_iteration_success\"):\n                redo_step = True\n                timestep = timestep * 0.8\n            if redo_step:",
  "            if redo_step:"))
V("C02-e-or", "C02", "C02.4", (ITY, 'self.solver_dict["newton_iteration_success"] and prec < desired_tol', 'self.solver_dict["newton_iteration_success"] or prec < desired_tol'))
V("C02-e2-noprec", "C02", "C02.4", (ITY, 'self.solver_dict["newton_iteration_success"] = self.solver_dict["newton_iteration_success"] and prec < desired_tol', 'self.solver_dict["newton_iteration_success"] = bool(self.solver_dict["newton_iteration_success"])'))
V("C02-f-lastrow", "C02", ["C02.1", "C02.3"], (ITY, "self.dState = timestep * D.ar_numpy.sum(self.stage_values * self.tableau_final[0, 1:], axis=-1)",
                                             "self.dState = timestep * D.ar_numpy.sum(self.stage_values * self.tableau_final[-1, 1:], axis=-1)"))
V("C02-g-fsal-implicit", "C02", "C02.3", (ITY, "if self.is_fsal and self.is_explicit:\n            self.dState = intermediate_dstate", "if self.is_fsal:\n            self.dState = intermediate_dstate"))
V("C02-h-time-c", "C02", "C02.2", (RKM, "initial_time + timestep * rk_tableau[stage, 0]", "initial_time + timestep * rk_tableau[stage, 1]"))
V("C02-i-no-raise", "C02", "C02.4", (ITY, "                if redo_step:\n                    raise exception_types.FailedToMeetTolerances(", "                if False:\n                    raise exception_types.FailedToMeetTolerances("))
V("C02-j-break-early", "C02", "C02.4", (ITY, "                    if not redo_step:\n                        break\n                if redo_step:", "                    if not redo_step or self.solver_dict['redo_count'] > 8:\n                        break\n                if redo_step and self.is_adaptive:"))
V("C02-k-algsys-time", "C02", "C02.2", (ITY, "rhs(initial_time + tbl[0] * timestep,\n                initial_state + timestep * D.ar_numpy.sum(tbl[1:] * __aux_states, axis=-1), **constants)\n            for tbl",
                                       "rhs(initial_time + tbl[0] * timestep,\n                initial_state + D.ar_numpy.sum(tbl[1:] * __aux_states, axis=-1), **constants)\n            for tbl"))
V("C02-l-algsys-sign", "C02", "C02.2", (ITY, "__states = D.ar_numpy.reshape(__aux_states - __rhs_states, (-1,))", "__states = D.ar_numpy.reshape(__aux_states + __rhs_states, (-1,))"))
V("C02-m-range-short", "C02", "C02.2", (RKM, "for stage in range(intermediate_stages_in.shape[-1]):", "for stage in range(intermediate_stages_in.shape[-1] - 1):"))
V("C02-n-mask-sign", "C02", "C02.2", (RKM, "nonzero_coeffs_mask = stage_coeffs != 0.0", "nonzero_coeffs_mask = stage_coeffs > 0.0"))
V("C02-o-guess-not-stored", "C02", "C02.3", (ITY, "self.stage_values = D.ar_numpy.reshape(aux_root, self.stage_values.shape)", "aux_root = D.ar_numpy.reshape(aux_root, self.stage_values.shape)"))
V("C02-s-reorder", "C02", "silent", (RKM, "initial_time + timestep * rk_tableau[stage, 0]", "rk_tableau[stage, 0] * timestep + initial_time"))
V("C02-s-rename", "C02", "silent", (RKM, "stage_coeffs", "a_row"), count=3)
V("C02-s-demorgan", "C02", "silent", (ITY, "if self.is_fsal and self.is_explicit:\n            self.dState = intermediate_dstate", "if not (not self.is_fsal or self.is_implicit):\n            self.dState = intermediate_dstate"))

# ---- C03 -----------------------------------------------------------------------------------------
V("C03-a-noclamp", "C03", "C03.2", (DS, "                    is_final_step = True\n                    dt = (tf - self.__t[self.counter])", "                    is_final_step = True\n                    dt = self.dt"))
V("C03-b-time-dt", "C03", "C03.2", (DS, "self.__t[self.counter + 1] = self.__t[self.counter] + dTime", "self.__t[self.counter + 1] = self.__t[self.counter] + dt"))
V("C03-c-nocapacity", "C03", "C03.3", (DS, "                if self.counter + 1 >= len(self.__y):\n                    total_steps = self.__alloc_space_steps(tf - dTime) + 1\n                    self.__allocate_soln_space(total_steps)\n", ""))
V("C03-c2-capacity-off", "C03", "C03.3", (DS, "                if self.counter + 1 >= len(self.__y):\n                    total_steps = self.__alloc_space_steps(tf - dTime) + 1", "                if self.counter + 1 > len(self.__y):\n                    total_steps = self.__alloc_space_steps(tf - dTime) + 1"))
V("C03-d-inc-first", "C03", "C03.2", (DS,
  "                self.__y[self.counter + 1] = self.__y[self.counter] + dState\n                self.__t[self.counter + 1] = self.__t[self.counter] + dTime\n\n                self.counter += 1\n",
  "                self.counter += 1\n                self.__y[self.counter] = self.__y[self.counter - 1] + dState\n                self.__t[self.counter] = self.__t[self.counter - 1] + dTime\n\n"))
V("C03-e-guard-abs", "C03", ["C03.1", "C03.2"], (DS, "(self.dt != 0 and D.ar_numpy.abs(tf - self.__t[self.counter]) >= D.tol_epsilon(", "(self.dt != 0 and D.ar_numpy.abs(tf) - D.ar_numpy.abs(self.__t[self.counter]) >= D.tol_epsilon("))
V("C03-f-nodtype", "C03", "C03.4", (DS, "__new_allocs = D.ar_numpy.zeros((num_units,) + D.ar_numpy.shape(self.__y[0]), **self.__array_con_kwargs)", "__new_allocs = D.ar_numpy.zeros((num_units,) + D.ar_numpy.shape(self.__y[0]))"))
V("C03-g-old-overshoot", "C03", ["C03.1", "C03.2"], (DS, "D.ar_numpy.abs(self.dt) > D.ar_numpy.abs(tf - self.__t[self.counter]):\n                    is_final_step = True", "D.ar_numpy.abs(self.dt + self.__t[self.counter]) > D.ar_numpy.abs(tf):\n                    is_final_step = True"))
V("C03-h-no-reorient", "C03", "C03.5", (DS, "                self.__fix_dt_dir(tf, self.__t[self.counter])\n                if not implicit_integration", "                if not implicit_integration"))
V("C03-i-overshoot-2x", "C03", "C03.2", (DS, "D.ar_numpy.abs(self.dt) > D.ar_numpy.abs(tf - self.__t[self.counter]):\n                    is_final_step = True", "D.ar_numpy.abs(self.dt) > 2 * D.ar_numpy.abs(tf - self.__t[self.counter]):\n                    is_final_step = True"))
V("C03-j-state-from-prev", "C03", "C03.2", (DS, "self.__y[self.counter + 1] = self.__y[self.counter] + dState", "self.__y[self.counter + 1] = self.__y[0] + dState"))
V("C03-k-row0", "C03", "C03.4", (DS, "                            self.__t[self.counter + 1] = next_time\n                            self.__y[self.counter + 1] = next_state", "                            self.__t[self.counter] = next_time\n                            self.__y[self.counter] = next_state"))
V("C03-l-reorient-span", "C03", "C03.5", (DS, "                self.__fix_dt_dir(tf, self.__t[self.counter])\n                if not implicit_integration", "                self.__fix_dt_dir(self.tf, self.t0)\n                if not implicit_integration"))
V("C03-m-start-from-t0", "C03", "C03.2", (DS, "self.integrator(self.equ_rhs, self.__t[self.counter], self.__y[self.counter],", "self.integrator(self.equ_rhs, self.__t[self.counter], self.__y[self.counter - 1],"))
V("C03-s-swap-writes", "C03", "silent", (DS,
  "                self.__y[self.counter + 1] = self.__y[self.counter] + dState\n                self.__t[self.counter + 1] = self.__t[self.counter] + dTime\n",
  "                self.__t[self.counter + 1] = dTime + self.__t[self.counter]\n                self.__y[self.counter + 1] = dState + self.__y[self.counter]\n"))
V("C03-s-ge", "C03", "silent", (DS, "D.ar_numpy.abs(self.dt) > D.ar_numpy.abs(tf - self.__t[self.counter]):\n                    is_final_step = True", "D.ar_numpy.abs(tf - self.__t[self.counter]) <= D.ar_numpy.abs(self.dt):\n                    is_final_step = True"))
V("C03-s-capacity-early", "C03", "silent", (DS, "                if self.counter + 1 >= len(self.__y):\n                    total_steps = self.__alloc_space_steps(tf - dTime) + 1", "                if self.counter + 2 >= len(self.__y):\n                    total_steps = self.__alloc_space_steps(tf - dTime) + 1"))

# ---- C04 -----------------------------------------------------------------------------------------
V("C04-a-unconditional", "C04", "C04.4", (DS, "                if not is_final_step:\n                    self.dt = new_dt", "                if True:\n                    self.dt = new_dt"))
V("C04-b-symp-half", "C04", "C04.2", (ITY, "            self.final_rhs = rhs(initial_time + self.dTime, initial_state + self.dState, **constants)\n\n        return timestep, (self.dTime, self.dState)", "            self.final_rhs = rhs(initial_time + self.dTime, initial_state + self.dState, **constants)\n\n        return self.dTime * 0.5, (self.dTime, self.dState)"))
V("C04-c-dtime-half", "C04", "C04.3", (ITY, "        self.dTime = D.ar_numpy.copy(timestep)\n        if self.is_fsal and self.is_explicit:", "        self.dTime = D.ar_numpy.copy(0.5 * timestep)\n        if self.is_fsal and self.is_explicit:"))
V("C04-d-signed-min", "C04", "C04.1", (ITY, "D.ar_numpy.sign(current_timestep) * D.ar_numpy.minimum(D.ar_numpy.abs(timestep), D.ar_numpy.abs(current_timestep)))", "D.ar_numpy.minimum(timestep, current_timestep))", ), count=2)
V("C04-e-log-signed", "C04", "C04.1", (IUT, "D.ar_numpy.log(D.ar_numpy.abs(integrator.solver_dict['tau0']))", "D.ar_numpy.log(integrator.solver_dict['tau0'])"))
V("C04-s-explicit-controller-harmless", "C04", "silent", (ITY, "        if self.is_adaptive or self.is_implicit:\n            self.solver_dict['redo_count'] = 0", "        if True:\n            self.solver_dict['redo_count'] = 0"))
V("C04-g-step-modifies", "C04", "C04.2", (ITY, "        self.dTime = D.ar_numpy.copy(timestep)\n        if self.is_fsal and self.is_explicit:", "        timestep = timestep * 1.0000001\n        self.dTime = D.ar_numpy.copy(timestep)\n        if self.is_fsal and self.is_explicit:"))
V("C04-h-rich-signed", "C04", "C04.1", (ITY, "if D.ar_numpy.abs(dt_z) < D.ar_numpy.abs(timestep):", "if dt_z < timestep:"))
V("C04-i-clip-dt", "C04", "C04.4", (DS, "                steps += 1\n", "                steps += 1\n                self.dt = 0.5 * self.dt\n"))
V("C04-s-equiv-guard", "C04", "silent", (ITY, "if D.ar_numpy.abs(dt_z) < D.ar_numpy.abs(timestep):", "if D.ar_numpy.abs(timestep) > D.ar_numpy.abs(dt_z):"))

# ---- C05 -----------------------------------------------------------------------------------------
V("C05-a-noraise", "C05", "C05.1", (ITY, "                if redo_step:\n                    raise exception_types.FailedToMeetTolerances(", "                if redo_step and False:\n                    raise exception_types.FailedToMeetTolerances("))
V("C05-b-threshold", "C05", "C05.3", (TPL, "return timestep, bool(corr < 0.9**2)", "return timestep, bool(corr < 1.5)"))
V("C05-c-estimate-sum", "C05", "C05.4", (ITY, "(self.tableau_final[0, 1:] - self.tableau_final[1, 1:]) * self.stage_values", "(self.tableau_final[0, 1:] + self.tableau_final[1, 1:]) * self.stage_values"))
V("C05-d-noredo-check", "C05", "C05.1", (ITY, "            if redo_step:\n                for _ in range(self.solver_dict.get(\"num_step_retries\", 64)):", "            if redo_step and self.is_implicit:\n                for _ in range(self.solver_dict.get(\"num_step_retries\", 64)):"))
V("C05-e-retry-max", "C05", "C05.2", (ITY, "D.ar_numpy.sign(current_timestep) * D.ar_numpy.minimum(D.ar_numpy.abs(timestep), D.ar_numpy.abs(current_timestep)))", "D.ar_numpy.sign(current_timestep) * D.ar_numpy.maximum(D.ar_numpy.abs(timestep), D.ar_numpy.abs(current_timestep)))"), count=2)
V("C05-f-retry-same", "C05", "C05.2", (ITY, "D.ar_numpy.sign(current_timestep) * D.ar_numpy.minimum(D.ar_numpy.abs(timestep), D.ar_numpy.abs(current_timestep)))", "current_timestep)"), count=2)
V("C05-g-diff-noh", "C05", "C05.4", (ITY, "            self.solver_dict['diff'] = timestep * self.get_error_estimate()\n            self.solver_dict['initial_state'] = initial_state", "            self.solver_dict['diff'] = self.get_error_estimate()\n            self.solver_dict['initial_state'] = initial_state"))
V("C05-h-break-always", "C05", "C05.1", (ITY, "                    if not redo_step:\n                        break\n                if redo_step:", "                    if not redo_step or _ > 3:\n                        break\n                if redo_step and _ < 3:"))
V("C05-i-redo-flipped", "C05", "C05.3", (TPL, "return timestep, bool(corr < 0.9**2)", "return timestep, bool(corr > 0.9**2)"))
V("C05-j-corr-mismatch", "C05", "C05.3", (TPL, "            timestep = corr * timestep\n            return timestep", "            timestep = (1 + corr) * timestep\n            return timestep"))
V("C05-s-ge-form", "C05", "silent", (TPL, "return timestep, bool(corr < 0.9**2)", "return timestep, bool(0.81 > corr)"))

# ---- C09 -----------------------------------------------------------------------------------------
V("C09-a-first-root", "C09", "C09.2", (DS, "self.integrate(roots[-1])", "self.integrate(roots[0])"))
V("C09-b-truncate-short", "C09", "C09.1", (DS, "            roots = roots[:t + 1]", "            roots = roots[:t]"))
V("C09-c-no-status", "C09", "C09.2", (DS, "                            self.integrate(roots[-1])\n                            self.__int_status = 2", "                            self.integrate(roots[-1])"))
V("C09-d-keep-piece", "C09", "C09.3", (DS, "                            for _ in range(len(self.__sol) - __pre_length):\n                                self.__sol.remove_interpolant(-1 if dTime >= 0 else 0)\n", ""))
V("C09-e-order-after", "C09", "C09.1", (DS, "        order = D.ar_numpy.argsort(D.ar_numpy.sign(t_next - t_prev) * roots)\n        active_events = active_events[order]\n        roots = roots[order]\n        evs = [evs[idx] for idx in order]\n\n        if D.ar_numpy.any(is_terminal[active_events]):\n            t = D.ar_numpy.nonzero(is_terminal[active_events])[0][0]\n            active_events = active_events[:t + 1]\n            roots = roots[:t + 1]\n            evs = evs[:t + 1]\n            terminate = True\n",
  "        if D.ar_numpy.any(is_terminal[active_events]):\n            t = D.ar_numpy.nonzero(is_terminal[active_events])[0][0]\n            active_events = active_events[:t + 1]\n            roots = roots[:t + 1]\n            evs = evs[:t + 1]\n            terminate = True\n        order = D.ar_numpy.argsort(D.ar_numpy.sign(t_next - t_prev) * roots)\n        active_events = active_events[order]\n        roots = roots[order]\n        evs = [evs[idx] for idx in order]\n"))
V("C09-f-pass-callback", "C09", "C09.2", (DS, "self.integrate(roots[-1])", "self.integrate(roots[-1], callback=callback)"))
V("C09-g-status-before", "C09", "C09.2", (DS, "                            self.integrate(roots[-1])\n                            self.__int_status = 2", "                            self.__int_status = 2\n                            self.integrate(roots[-1])"))
V("C09-h-last-terminal", "C09", "C09.1", (DS, "t = D.ar_numpy.nonzero(is_terminal[active_events])[0][0]", "t = D.ar_numpy.nonzero(is_terminal[active_events])[0][-1]"))
V("C09-i-no-loop-exit", "C09", "C09.2", (DS, "tol_epsilon(self.__y[self.counter].dtype))) and not end_int:", "tol_epsilon(self.__y[self.counter].dtype))):"))
V("C09-j-evs-untruncated", "C09", "C09.1", (DS, "            evs = evs[:t + 1]\n", ""))
V("C09-k-recommit", "C09", ["C09.2", "C09.3"], (DS, "                            self.integrate(roots[-1])\n                            self.__int_status = 2", "                            self.integrate(roots[-1])\n                            self.__int_status = 2\n                            self.counter += 1"))

# ---- C12 -----------------------------------------------------------------------------------------
V("C12-a-raise-original", "C12", "C12.1", (DS, "            self.__int_status = new_e\n            raise new_e", "            self.__int_status = new_e\n            raise e"))
V("C12-b-no-cause", "C12", "C12.1", (DS, "            new_e.__cause__ = e\n", ""))
V("C12-c-no-trim", "C12", "C12.6", (DS, "                tqdm_progress_bar.close()\n            self.__trim_soln_space()", "                tqdm_progress_bar.close()"))
V("C12-d-baseexception-first", "C12", "C12.1", (DS, "        except KeyboardInterrupt as e:\n            self.__int_status = e\n            raise e\n        except Exception as e:", "        except BaseException as e:"))
V("C12-e-decrement-before-events", "C12", "C12.4", (DS, "                        active_events, roots, end_int, evs = handle_events(sol_tuple, events, self.constants, direction, is_terminal, (requires_dstate,))\n                        self.counter -= 1\n",
   "                        self.counter -= 1\n                        active_events, roots, end_int, evs = handle_events(sol_tuple, events, self.constants, direction, is_terminal, (requires_dstate,))\n"))
V("C12-f-callback-before-commit", "C12", ["C12.4", "C12.3"], (DS, "                self.__y[self.counter + 1] = self.__y[self.counter] + dState\n                self.__t[self.counter + 1] = self.__t[self.counter] + dTime\n\n                self.counter += 1\n",
   "                self.__y[self.counter + 1] = self.__y[self.counter] + dState\n                self.__t[self.counter + 1] = self.__t[self.counter] + dTime\n                for i in callback:\n                    i(self)\n\n                self.counter += 1\n"))
V("C12-g-trim-conditional", "C12", "C12.6", (DS, "            self.__trim_soln_space()\n\n    def __repr__", "            if self.__int_status == 1:\n                self.__trim_soln_space()\n\n    def __repr__"))
V("C12-h-ki-swallowed", "C12", "C12.1", (DS, "            self.__int_status = e\n            raise e\n        except Exception as e:", "            self.__int_status = e\n        except Exception as e:"))
V("C12-i-status-overwrite", "C12", "C12.1", (DS, "            if self.__int_status != 2 and not isinstance(self.__int_status,\n                                                         (etypes.FailedIntegration, KeyboardInterrupt)):\n                self.__int_status = 1", "            self.__int_status = 1"))
V("C12-j-trim-short", "C12", "C12.6", (DS, "        self.__y = self.__y[:self.counter + 1]\n        self.__t = self.__t[:self.counter + 1]", "        self.__y = self.__y[:self.counter + 1]\n        self.__t = self.__t[:self.counter]"))
V("C12-k-add-before-commit", "C12", "C12.4", (DS, "                self.counter += 1\n\n                if events is not None or self.__dense_output:\n                    __pre_length = len(self.__sol)\n                    __t_interp, __y_interp = self.get_step_interpolant()\n                    self.__sol.add_interpolant(__t_interp, __y_interp)\n",
   "                if events is not None or self.__dense_output:\n                    __pre_length = len(self.__sol)\n                    __t_interp, __y_interp = self.get_step_interpolant()\n                    self.__sol.add_interpolant(__t_interp, __y_interp)\n                for i in callback:\n                    i(self)\n                self.counter += 1\n\n                if False:\n                    pass\n"))
V("C12-s-raise-from", "C12", "silent", (DS, "            new_e.__cause__ = e\n            self.__int_status = new_e\n            raise new_e", "            self.__int_status = new_e\n            raise new_e from e"))
V("C12-s-bare-raise", "C12", "silent", (DS, "            self.__int_status = e\n            raise e\n        except Exception as e:", "            self.__int_status = e\n            raise\n        except Exception as e:"))

# ---- C06 -----------------------------------------------------------------------------------------
V("C06-a-swap-slopes", "C06", "C06.1", (ITY, "                    self.initial_state + self.dState,\n                    self.initial_rhs,\n                    self.final_rhs\n                ))\n    # ---- #", "                    self.initial_state + self.dState,\n                    self.final_rhs,\n                    self.initial_rhs\n                ))\n    # ---- #"))
V("C06-b-unpaired-insert", "C06", "C06.4", (DS, "                    self.t_eval.insert(0, D.ar_numpy.asarray(t))\n                    self.y_interpolants.insert(0, y_interp)", "                    self.t_eval.insert(0, D.ar_numpy.asarray(t))\n                    self.y_interpolants.append(y_interp)"))
V("C06-c-no-direction", "C06", "C06.2", (DS, "        if idx > 0 and self.y_interpolants[idx].trange < 0 and self.t_eval[idx] > t:\n            idx = idx - 1\n", ""))
V("C06-c2-no-direction-vec", "C06", "C06.2", (DS, "            if idx > 0 and self.y_interpolants[idx].trange < 0 and self.t_eval[idx] > _t:\n                out[pos] = idx - 1\n", "            pass\n"))
V("C06-d-unkeyed", "C06", "C06.3", (ITY, "if self.final_rhs is not None and self.final_time is not None and bool(D.ar_numpy.all(self.final_time == initial_time)) and bool(D.ar_numpy.all(self.final_state == initial_state)):", "if self.final_rhs is not None:"))
V("C06-d2-time-only", "C06", "C06.3", (ITY, " and bool(D.ar_numpy.all(self.final_state == initial_state)):", ":"))
V("C06-e-symp-stale", "C06", "C06.3", (ITY, "        self.initial_rhs = None\n        self.final_rhs = None\n\n        self.step(rhs=rhs", "        self.initial_rhs = None\n\n        self.step(rhs=rhs"))
V("C06-f-knot", "C06", "C06.1", (ITY, "    def dense_output(self):\n        return (self.initial_time + self.dTime,\n                utilities.interpolation.CubicHermiteInterp(\n                    self.initial_time,\n                    self.initial_time + self.dTime,\n                    self.initial_state,\n                    self.initial_state + self.dState,\n                    self.initial_rhs,\n                    self.final_rhs\n                ))\n    # ---- #",
   "    def dense_output(self):\n        return (self.initial_time,\n                utilities.interpolation.CubicHermiteInterp(\n                    self.initial_time,\n                    self.initial_time + self.dTime,\n                    self.initial_state,\n                    self.initial_state + self.dState,\n                    self.initial_rhs,\n                    self.final_rhs\n                ))\n    # ---- #"))
V("C06-g-final-slope-start", "C06", "C06.6", (ITY, "            self.final_rhs = rhs(initial_time + self.dTime, initial_state + self.dState, **constants)\n        self.final_time", "            self.final_rhs = rhs(initial_time + self.dTime, initial_state, **constants)\n        self.final_time"))
V("C06-h-keys-wrong", "C06", "C06.3", (ITY, "        self.final_time = initial_time + self.dTime\n", "        self.final_time = initial_time\n"))
V("C06-i-remove-unpaired", "C06", "C06.4", (DS, "out = self.t_eval.pop(idx), self.y_interpolants.pop(idx)", "out = self.t_eval.pop(idx), self.y_interpolants.pop(0)"))
V("C06-j-end-state", "C06", "C06.1", (ITY, "    def dense_output(self):\n        return (self.initial_time + self.dTime,\n                utilities.interpolation.CubicHermiteInterp(\n                    self.initial_time,\n                    self.initial_time + self.dTime,\n                    self.initial_state,\n                    self.initial_state + self.dState,\n                    self.initial_rhs,\n                    self.final_rhs\n                ))\n\n    def step", "    def dense_output(self):\n        return (self.initial_time + self.dTime,\n                utilities.interpolation.CubicHermiteInterp(\n                    self.initial_time,\n                    self.initial_time + self.dTime,\n                    self.initial_state,\n                    self.dState,\n                    self.initial_rhs,\n                    self.final_rhs\n                ))\n\n    def step"))
V("C06-s-reorder-sum", "C06", "silent", (ITY, "    def dense_output(self):\n        return (self.initial_time + self.dTime,\n                utilities.interpolation.CubicHermiteInterp(\n                    self.initial_time,\n                    self.initial_time + self.dTime,\n                    self.initial_state,\n                    self.initial_state + self.dState,\n                    self.initial_rhs,\n                    self.final_rhs\n                ))\n    # ---- #",
   "    def dense_output(self):\n        t_end = self.dTime + self.initial_time\n        return (t_end,\n                utilities.interpolation.CubicHermiteInterp(\n                    self.initial_time,\n                    self.dTime + self.initial_time,\n                    self.initial_state,\n                    self.dState + self.initial_state,\n                    self.initial_rhs,\n                    self.final_rhs\n                ))\n    # ---- #"))

# ---- C07 -----------------------------------------------------------------------------------------
V("C07-a-wrong-state", "C07", "C07.1", (DS, "ev_state = StateTuple(t=root, y=self.__sol(root), event=ev)", "ev_state = StateTuple(t=root, y=next_state, event=ev)"))
V("C07-b-down-dir", "C07", "C07.3", (DS, "down & (direction < 0) |", "down & (direction > 0) |"))
V("C07-c-raw-sort", "C07", "C07.4", (DS, "order = D.ar_numpy.argsort(D.ar_numpy.sign(t_next - t_prev) * roots)", "order = D.ar_numpy.argsort(roots)"))
V("C07-d-pos-index", "C07", "C07.2", (DS, "last_occurrence[active_events[ev_idx]] = len(self.__events)\n                                    self.__events.append(ev_state)\n                                elif", "last_occurrence[ev_idx] = len(self.__events)\n                                    self.__events.append(ev_state)\n                                elif"))
V("C07-e-up-class", "C07", "C07.3", (DS, "    up = ((g <= 0) & (g_new >= 0)) | ((g <= 0) & (g_cen >= 0)) | ((g_cen <= 0) & (g_new >= 0))", "    up = ((g <= 0) & (g_new >= 0)) | ((g <= 0) & (g_cen >= 0)) | ((g_cen >= 0) & (g_new >= 0))"))
V("C07-f-no-success", "C07", "C07.3", (DS, "    up = success & up\n", "    up = up\n"))
V("C07-g-instep-swapped", "C07", "C07.5", (DS, "                            if dTime >= 0:\n                                true_positive", "                            if dTime < 0:\n                                true_positive"))
V("C07-h-instep-loose", "C07", "C07.5", (DS, "true_positive = (self.__t[self.counter] <= root) & (root <= prev_time + dTime)", "true_positive = (self.__t[self.counter] <= root) | (root <= prev_time + dTime)"))
V("C07-i-event-mismatch", "C07", "C07.1", (DS, "ev_state = StateTuple(t=root, y=self.__sol(root), event=ev)", "ev_state = StateTuple(t=root, y=self.__sol(root), event=events[ev_idx])"))
V("C07-j-either-missing", "C07", "C07.3", (DS, "either & (direction == 0))", "up & (direction == 0))"))
V("C07-k-unguarded-append", "C07", "C07.1", (DS, "                            if true_positive:\n                                ev_state", "                            if True:\n                                ev_state"))
V("C07-s-mask-demorgan", "C07", "silent", (DS, "    mask = (up & (direction > 0) |\n                down & (direction < 0) |\n                either & (direction == 0))", "    mask = ((direction == 0) & either) | ((direction < 0) & down) | ((direction > 0) & up)"))

# ---- C08 -----------------------------------------------------------------------------------------
V("C08-a-degenerate-bracket", "C08", "C08.3", (DS, "        [t_prev, t_next],\n        tol=None,", "        [t_prev, t_prev],\n        tol=None,"))
V("C08-b-abs-success", "C08", "C08.1", (OPT, "        true_conv = D.ar_numpy.logical_or(bracketed, fb == 0)\n\n    if verbose:", "        true_conv = D.ar_numpy.abs(fb) <= tol\n\n    if verbose:"))
V("C08-c-stale-interval", "C08", "C08.3", (DS, "                        prev_time = self.__t[self.counter - 1]\n", "                        prev_time = self.__t[max(self.counter - 2, 0)]\n"))
V("C08-d-skip-events", "C08", "C08.3", (DS, "    for ev, rds in zip(events, requires_dstate):\n        ev_f.append(__get_ev_f(ev, rds))", "    for ev, rds in zip(events, requires_dstate):\n        if not rds:\n            ev_f.append(__get_ev_f(ev, rds))"))
V("C08-e-search-before-add", "C08", "C08.2", (DS, "                    __t_interp, __y_interp = self.get_step_interpolant()\n                    self.__sol.add_interpolant(__t_interp, __y_interp)\n\n                    if events is not None:", "                    __t_interp, __y_interp = self.get_step_interpolant()\n\n                    if events is not None:"))
V("C08-f-eval-state", "C08", "C08.3", (DS, "                return __ev(t, sol(t), **consts)", "                return __ev(t, sol(t_next), **consts)"))
V("C08-g-scaled-tol", "C08", "C08.1", (OPT, "    true_conv = D.ar_numpy.logical_or(bracketed, fb == 0)\n\n    while", "    true_conv = D.ar_numpy.logical_or(bracketed, D.ar_numpy.abs(fb) < 1e-12)\n\n    while"))

# ---- C14 -----------------------------------------------------------------------------------------
V("C14-a-no-cond1-scalar", "C14", "C14.2", (OPT, "bisect_now = cond1 or (mflag and cond2)", "bisect_now = (mflag and cond2)"))
V("C14-a2-no-cond1-vector", "C14", "C14.2", (OPT, "        mask = cond1\n        cond2 =", "        mask = D.ar_numpy.zeros_like(cond1)\n        cond2 ="))
V("C14-b-no-cap", "C14", "C14.4", (OPT, "        if numiter >= 64:\n            break\n", ""))
V("C14-b2-no-cap-vec", "C14", "C14.4", (OPT, "        conv = conv & (numiter <= 64)\n", ""))
V("C14-c-abs-success", "C14", "C14.1", (OPT, "        return b, D.ar_numpy.sign(fa) * D.ar_numpy.sign(fb) <= 0\n", "        return b, D.ar_numpy.abs(fb) <= tol\n"))
V("C14-d-vector-cond3", "C14", "C14.2", (OPT, "cond3 = D.ar_numpy.logical_and(D.ar_numpy.logical_not(mflag), D.ar_numpy.abs(s - b) >= D.ar_numpy.abs(c - d) / 2)", "cond3 = D.ar_numpy.logical_and(mflag, D.ar_numpy.abs(s - b) >= D.ar_numpy.abs(c - d) / 2)"))
V("C14-e-eps-product", "C14", "C14.5", (OPT, "    if D.ar_numpy.sign(fa) * D.ar_numpy.sign(fb) > 0:\n        return", "    if D.ar_numpy.sign(fa) * D.ar_numpy.sign(fb) >= D.epsilon(lower_bound.dtype):\n        return"))
V("C14-f-interval-3ab", "C14", "C14.2", (OPT, "cond1 = not ((3 * a + b) / 4 < s < b or b < s < (3 * a + b) / 4)", "cond1 = not ((3 * a + b) / 4 < s < b or b < s < (a + 3 * b) / 4)"))
V("C14-s-cond-order", "C14", "silent", (OPT, "bisect_now = cond1 or (mflag and cond2) or (not mflag and cond3) or (mflag and cond4) or (not mflag and cond5)", "bisect_now = (mflag and (cond2 or cond4)) or (not mflag and (cond3 or cond5)) or cond1"))

# ---- C13 -----------------------------------------------------------------------------------------
V("C13-a1-no-events-reset", "C13", "C13.1", (DS, "        if self.__events:\n            self.__events = []\n        self.initialise_integrator(preserve_states=False)", "        self.initialise_integrator(preserve_states=False)"))
V("C13-a2-no-sol-reset", "C13", "C13.1", (DS, "        self.__trim_soln_space()\n        self.__sol = DenseOutput(None, None)\n        self.dt = self.__dt0", "        self.__trim_soln_space()\n        self.dt = self.__dt0"))
V("C13-a3-no-dt-reset", "C13", "C13.1", (DS, "        self.__sol = DenseOutput(None, None)\n        self.dt = self.__dt0\n", "        self.__sol = DenseOutput(None, None)\n"))
V("C13-b-preserve", "C13", "C13.2", (DS, "            self.__events = []\n        self.initialise_integrator(preserve_states=False)", "            self.__events = []\n        self.initialise_integrator(preserve_states=True)"))
V("C13-c-no-clone", "C13", "C13.3", (DS, "self.__y = D.ar_numpy.clone(y0)[None]", "self.__y = y0[None]"))
V("C13-d-no-nfev", "C13", "C13.1", (DS, "        self.equ_rhs.nfev = 0\n        self.__int_status = 0", "        self.__int_status = 0"))
V("C13-e-no-integrator", "C13", "C13.1", (DS, "            self.__events = []\n        self.initialise_integrator(preserve_states=False)", "            self.__events = []"))
V("C13-f-early-return-late", "C13", "C13.4", (DS, "        if D.ar_numpy.abs(tf - self.__t[self.counter]) < D.epsilon(self.__y[self.counter].dtype):\n            return\n        steps = 0", "        self.__int_status = 0\n        if D.ar_numpy.abs(tf - self.__t[self.counter]) < D.epsilon(self.__y[self.counter].dtype):\n            return\n        steps = 0"))
V("C13-g-no-early-return", "C13", "C13.4", (DS, "        if D.ar_numpy.abs(tf - self.__t[self.counter]) < D.epsilon(self.__y[self.counter].dtype):\n            return\n        steps = 0", "        steps = 0"))
V("C13-h-status-value", "C13", "C13.2", (DS, "        self.equ_rhs.nfev = 0\n        self.__int_status = 0", "        self.equ_rhs.nfev = 0\n        self.__int_status = 1"))
V("C13-i-trim-before-zero", "C13", "C13.2", (DS, "        self.counter = 0\n        self.__trim_soln_space()\n        self.__sol = DenseOutput(None, None)", "        self.__trim_soln_space()\n        self.counter = 0\n        self.__sol = DenseOutput(None, None)"))
V("C13-j-new-state-not-reset", "C13", "C13.1", (DS, "                steps += 1\n", "                steps += 1\n                self.total_steps_taken = steps\n"))
V("C13-k-consts-write", "C13", "C13.3", (DS, "        end_int = False\n        self.__allocate_soln_space(total_steps)", "        end_int = False\n        self.constants['__last_target'] = tf\n        self.__allocate_soln_space(total_steps)"))
V("C13-l-dt0-overwritten", "C13", "C13.2", (DS, "                if not is_final_step:\n                    self.dt = new_dt", "                if not is_final_step:\n                    self.dt = new_dt\n                    self.__dt0 = new_dt"))
V("C13-s-permute-reset", "C13", "silent", (DS, "        self.equ_rhs.nfev = 0\n        self.__int_status = 0\n", "        self.__int_status = 0\n        self.equ_rhs.nfev = 0\n"))

# ---- C16 -----------------------------------------------------------------------------------------
V("C16-a-never-rebuild", "C16", "C16.2", (DS, "            if t != self.__jac_time:\n                self.__jac_time = t\n                self.__jac = deutil.JacobianWrapper(lambda y, **kwargs: self(t, y, **kwargs),\n                                                    base_order=self.__jac_wrapped_rhs_order, flat=False)\n", ""))
V("C16-b-prefer-fd", "C16", "C16.1", (DS, "                if hasattr(self.rhs, 'jac'):\n                    self.__jac = self.rhs.jac\n                    self.__jac_time = None\n                    self.__jac_is_wrapped_rhs = False\n                elif inferred_backend == 'numpy':", "                if inferred_backend == 'numpy':"))
V("C16-c-unhook-no-rearm", "C16", "C16.1", (DS, "        self.__jac = None\n        self.__jac_initialised = False\n", "        self.__jac = None\n"))
V("C16-d-raw-rhs", "C16", "C16.3", (DS, "self.__jac = deutil.JacobianWrapper(lambda y, **kwargs: self(0.0, y, **kwargs),\n                                                base_order=self.__jac_wrapped_rhs_order, flat=False)\n            self.__jac_time = 0.0\n\n    def __str__", "self.__jac = deutil.JacobianWrapper(lambda y, **kwargs: self.rhs(0.0, y, **kwargs),\n                                                base_order=self.__jac_wrapped_rhs_order, flat=False)\n            self.__jac_time = 0.0\n\n    def __str__"))
V("C16-e-stale-key", "C16", "C16.2", (DS, "                self.__jac_time = t\n                self.__jac = deutil.JacobianWrapper(lambda y, **kwargs: self(t, y, **kwargs),", "                self.__jac_time = t\n                self.__jac = deutil.JacobianWrapper(lambda y, **kwargs: self(self.__jac_time or 0.0, y, **kwargs),"))
V("C16-f-hook-keeps-wrapped", "C16", "C16.1", (DS, "        self.__jac = jac_fn\n        self.__jac_time = None\n        self.__jac_is_wrapped_rhs = False", "        self.__jac = jac_fn\n        self.__jac_time = None"))
V("C16-g-column", "C16", "C16.4", (UTL, "jacobian_y[:, idx] = jacobian_y[:, idx] + w * D.ar_numpy.reshape(", "jacobian_y[:, idx - 1] = jacobian_y[:, idx - 1] + w * D.ar_numpy.reshape("))
V("C16-h-reshape-order", "C16", "C16.4", (UTL, "return jacobian_y.reshape((*D.ar_numpy.shape(dy_val), *D.ar_numpy.shape(y)))", "return jacobian_y.reshape((*D.ar_numpy.shape(y), *D.ar_numpy.shape(dy_val)))"))
V("C16-i-flat", "C16", "C16.3", (DS, "self.__jac = deutil.JacobianWrapper(lambda y, **kwargs: self(0.0, y, **kwargs),\n                                                base_order=self.__jac_wrapped_rhs_order, flat=False)\n            self.__jac_time = 0.0\n\n    def __str__", "self.__jac = deutil.JacobianWrapper(lambda y, **kwargs: self(0.0, y, **kwargs),\n                                                base_order=self.__jac_wrapped_rhs_order, flat=True)\n            self.__jac_time = 0.0\n\n    def __str__"))
V("C16-j-init-time-key", "C16", "C16.2", (DS, "                    self.__jac_time = 0.0\n                    self.__jac_is_wrapped_rhs = True", "                    self.__jac_time = t\n                    self.__jac_is_wrapped_rhs = True"))
V("C16-k-setattr", "C16", "C16.1", (DS, "        elif name == \"jac\":\n            self.hook_jacobian_call(val)\n", "        elif name == \"jacobian\":\n            self.hook_jacobian_call(val)\n"))

# ---- C20 -----------------------------------------------------------------------------------------
V("C20-a-count-before", "C20", "C20.2", (DS, "        called_val = self.rhs(t, y, *args, **kwargs)\n        self.nfev += 1\n        return called_val", "        self.nfev += 1\n        called_val = self.rhs(t, y, *args, **kwargs)\n        return called_val"))
V("C20-b-reversed", "C20", "C20.3", (DS, "                for i in callback:\n                    i(self)", "                for i in reversed(callback):\n                    i(self)"))
V("C20-c-cb-before-commit", "C20", "C20.3", (DS, "                self.counter += 1\n\n                if events is not None or self.__dense_output:", "                for i in callback:\n                    i(self)\n                self.counter += 1\n\n                if events is not None or self.__dense_output:"))
V("C20-d-njev-skip", "C20", ["C20.2b"], (DS, "            called_val = self.__jac(t, y, *args, **kwargs)\n        self.njev += 1", "            return self.__jac(t, y, *args, **kwargs)\n        self.njev += 1"))
V("C20-e-dt-after-cb", "C20", "C20.4", (DS, "                for i in callback:\n                    i(self)\n", "                for i in callback:\n                    i(self)\n                if not is_final_step:\n                    self.dt = new_dt\n"))
V("C20-f-rhs-in-jac", "C20", "C20.1", (DS, "self.__jac = deutil.JacobianWrapper(lambda y, **kwargs: self(t, y, **kwargs),", "self.__jac = deutil.JacobianWrapper(lambda y, **kwargs: self.rhs(t, y, **kwargs),"))
V("C20-g-integrator-raw", "C20", "C20.1", (ITY, "            self.final_rhs = rhs(initial_time + self.dTime, initial_state + self.dState, **constants)\n        self.final_time", "            self.final_rhs = rhs.rhs(initial_time + self.dTime, initial_state + self.dState, **constants)\n        self.final_time"))
V("C20-h-nfev-reset-elsewhere", "C20", "C20.2", (DS, "        if t is not None:\n            tf = t\n        else:\n            tf = self.tf\n", "        if t is not None:\n            tf = t\n        else:\n            tf = self.tf\n            self.equ_rhs.nfev = 0\n"))
V("C20-i-cb-in-events", "C20", "C20.3", (DS, "                for i in callback:\n                    i(self)\n", "                if events is None:\n                    for i in callback:\n                        i(self)\n"))
V("C20-j-njev-double", "C20", ["C20.2b", "C20.2"], (DS, "        if self.__jac_is_wrapped_rhs:\n            if t != self.__jac_time:", "        if self.__jac_is_wrapped_rhs:\n            self.njev += 1\n            if t != self.__jac_time:"))
V("C20-k-fix-dir-magnitude", "C20", "C20.4", (DS, "            self.__dt = -self.__dt\n        else:", "            self.__dt = -0.5 * self.__dt\n        else:"))
V("C20-s-cb-name", "C20", "silent", (DS, "                for i in callback:\n                    i(self)", "                for cb in callback:\n                    cb(self)"))

# ---- C15 -----------------------------------------------------------------------------------------
V("C15-a-always-true", "C15", "C15.1", (OPT, "    x = D.ar_numpy.reshape(root, xshape)\n    if var_bounds is not None:\n        x = transform_to_unbounded_x(x, *var_bounds)\n    \n    return x, (success, iterations, nfev, njev, prec)", "    x = D.ar_numpy.reshape(root, xshape)\n    if var_bounds is not None:\n        x = transform_to_unbounded_x(x, *var_bounds)\n    \n    return x, (True, iterations, nfev, njev, prec)"))
V("C15-b-no-reshape", "C15", "C15.3", (OPT, "    x = D.ar_numpy.reshape(root, xshape)\n    if var_bounds is not None:\n        x = transform_to_unbounded_x(x, *var_bounds)\n    \n    return x, (success, iterations, nfev, njev, prec)", "    x = root\n    if var_bounds is not None:\n        x = transform_to_unbounded_x(x, *var_bounds)\n    \n    return x, (success, iterations, nfev, njev, prec)"))
V("C15-c-ntr-iter-success", "C15", "C15.1", (OPT, "        success = success or Fn1 < 0.8 * tol\n", "        success = success or Fn1 < 0.8 * tol or iteration > 50\n"))
V("C15-d-ntr-ignores-failure", "C15", "C15.1", (OPT, "    return x, (success and not convergence_failure, iteration, nfev, njev, Fn1)", "    return x, (success or not convergence_failure, iteration, nfev, njev, Fn1)"))
V("C15-e-slot-swap", "C15", "C15.2", (OPT, "    return x, (success and not convergence_failure, iteration, nfev, njev, Fn1)", "    return x, (success and not convergence_failure, iteration, nfev, njev, dxn)"))
V("C15-f-scipy-branch-reshape", "C15", "C15.3", (OPT, "        if success:\n            x = D.ar_numpy.reshape(x, xshape)\n            if var_bounds is not None:\n                x = transform_to_unbounded_x(x, *var_bounds)\n            return x, (success, init_iter, nfev, njev, D.ar_numpy.linalg.norm(F))", "        if success:\n            if var_bounds is not None:\n                x = transform_to_unbounded_x(x, *var_bounds)\n            return x, (success, init_iter, nfev, njev, D.ar_numpy.linalg.norm(F))"))
V("C15-g-hybrj-arity", "C15", "C15.2", (OPT, "    return x, (success, dxn, iteration, D.ar_numpy.reshape(F0, fshape))", "    return x, (success, iteration, D.ar_numpy.reshape(F0, fshape))"))
V("C15-h-nr-maxiter-success", "C15", "C15.1", (OPT, "    success = success or prec <= D.tol_epsilon(x0.dtype)\n    \n    x = D.ar_numpy.reshape(root, xshape)", "    success = success or iterations < maxiter\n    \n    x = D.ar_numpy.reshape(root, xshape)"))
V("C15-s-flip", "C15", "silent", (OPT, "        success = success or Fn1 < 0.8 * tol\n", "        success = 0.8 * tol > Fn1 or success\n"))

# ---- C18 -----------------------------------------------------------------------------------------
V("C18-a-swap-tols", "C18", "C18.1", (DS, "atol=options.get('atol', None), rtol=options.get('rtol', None), constants=constants)", "atol=options.get('rtol', None), rtol=options.get('atol', None), constants=constants)"))
V("C18-b-args-offset", "C18", "C18.2", (DS, "zip(fn_args_kwargs[0][2:], args)", "zip(fn_args_kwargs[0][1:], args)"))
V("C18-c-axes", "C18", "C18.4", (DS, "axes=[*range(1, len(ode_system.y.shape)), 0]", "axes=[0, *range(1, len(ode_system.y.shape))]"))
V("C18-d-signed-clip", "C18", "C18.5", (DS, "ode_sys.dt = D.ar_numpy.sign(ode_sys.dt) * D.ar_numpy.clip(D.ar_numpy.abs(ode_sys.dt), min=min_step, max=max_step)", "ode_sys.dt = D.ar_numpy.clip(ode_sys.dt, min=min_step, max=max_step)"))
V("C18-e-clip-swapped", "C18", "C18.5", (DS, "D.ar_numpy.clip(D.ar_numpy.abs(ode_sys.dt), min=min_step, max=max_step)", "D.ar_numpy.clip(D.ar_numpy.abs(ode_sys.dt), min=max_step, max=min_step)"))
V("C18-f-no-events", "C18", "C18.1", (DS, "integration_options = dict(callback=callbacks, events=events, eta=options.get(\"show_prog_bar\", False))", "integration_options = dict(callback=callbacks, events=None, eta=options.get(\"show_prog_bar\", False))"))
V("C18-g-result-swap", "C18", "C18.3", (DS, "nfev=ode_system.nfev, njev=ode_system.njev,", "nfev=ode_system.njev, njev=ode_system.nfev,"))
V("C18-h-stack-axis", "C18", "C18.4", (DS, "y_res = D.ar_numpy.stack(y_res, axis=-1)", "y_res = D.ar_numpy.stack(y_res, axis=0)"))
V("C18-i-sort-asc", "C18", "C18.6", (DS, "        t_eval = __dir * D.ar_numpy.sort(__dir * D.ar_numpy.asarray(t_eval))", "        t_eval = D.ar_numpy.sort(D.ar_numpy.asarray(t_eval))"))
V("C18-j-register-only-max", "C18", "C18.5", (DS, "    if \"max_step\" in options or \"min_step\" in options:", "    if \"max_step\" in options and \"min_step\" in options:"))
V("C18-k-y-from-prev", "C18", "C18.4", (DS, "            y_res.append(ode_system[-1].y)", "            y_res.append(ode_system[-2].y)"))
V("C18-l-dense-flag", "C18", "C18.1", (DS, "ode_system = OdeSystem(equ_rhs=fun, y0=y0, t=t_span, dense_output=dense_output,", "ode_system = OdeSystem(equ_rhs=fun, y0=y0, t=t_span, dense_output=False,"))
V("C18-m-method-ignored", "C18", "C18.1", (DS, "    ode_system.method = method\n", "    ode_system.method = 'RK45'\n"))
V("C18-s-kw-order", "C18", "silent", (DS, "atol=options.get('atol', None), rtol=options.get('rtol', None), constants=constants)", "rtol=options.get('rtol', None), atol=options.get('atol', None), constants=constants)"))

# ---- C19 -----------------------------------------------------------------------------------------
V("C19-a-guard-ge", "C19", "C19.1", (DS, "            if index > self.counter:\n                raise IndexError(", "            if index >= self.counter:\n                raise IndexError("))
V("C19-b-guard-loose", "C19", "C19.1", (DS, "            if index > self.counter:\n                raise IndexError(", "            if index > self.counter + 1:\n                raise IndexError("))
V("C19-c-raw-read", "C19", "C19.3", (DS, "                return StateTuple(t=self.t[index], y=self.y[index], event=None)\n        elif isinstance(index, slice):", "                return StateTuple(t=self.__t[index], y=self.__y[index], event=None)\n        elif isinstance(index, slice):"))
V("C19-d-bisect-again", "C19", "C19.2", (DS, "nearest_idx = int(D.ar_numpy.argmin(D.ar_numpy.abs(self.t - index)))", "nearest_idx = deutil.search_bisection(self.t, index)"))
V("C19-e-dense-negated", "C19", "C19.4", (DS, "            if self.__dense_output and self.sol is not None:\n                return StateTuple(t=index, y=self.sol(index), event=None)", "            if not self.__dense_output and self.sol is not None:\n                return StateTuple(t=index, y=self.sol(index), event=None)"))
V("C19-f-len", "C19", "C19.6", (DS, "    def __len__(self):\n        return self.counter + 1", "    def __len__(self):\n        return self.counter"))
V("C19-g-slice-undirected", "C19", "C19.2", (DS, "start_idx = deutil.search_bisection(__dir * self.t, __dir * index.start)", "start_idx = deutil.search_bisection(self.t, index.start)"))
V("C19-h-nearest-raw", "C19", ["C19.3", "C19.2"], (DS, "nearest_idx = int(D.ar_numpy.argmin(D.ar_numpy.abs(self.t - index)))", "nearest_idx = int(D.ar_numpy.argmin(D.ar_numpy.abs(self.__t - index)))"))
V("C19-i-view-short", "C19", "C19.6", (DS, "        return self.__t[:self.counter + 1]", "        return self.__t[:self.counter]"))
V("C19-s-guard-len", "C19", "silent", (DS, "            if index > self.counter:\n                raise IndexError(", "            if index >= len(self):\n                raise IndexError("))

# ---- later additions ---------------------------------------------------------------------------
V("C07-l-abs-offset", "C07", "C07.6", (DS, "    g = [ev_f[idx](t_root - (t_next - t_prev) * D.epsilon(roots[0].dtype) ** 0.5) for idx, t_root in enumerate(roots)]", "    g = [ev_f[idx](t_root - abs(t_next - t_prev) * D.epsilon(roots[0].dtype) ** 0.5) for idx, t_root in enumerate(roots)]"))
V("C07-m-direction-abs", "C07", "C07.6", (DS, "                direction[i] = event.direction", "                direction[i] = abs(event.direction)"))
V("C07-n-terminal-wrong-index", "C07", "C07.6", (DS, "                is_terminal[i] = bool(event.is_terminal)", "                is_terminal[0] = bool(event.is_terminal)"))
V("C07-o-offset-no-step", "C07", "C07.6", (DS, "    g_new = [ev_f[idx](t_root + (t_next - t_prev) * D.epsilon(roots[0].dtype) ** 0.5) for idx, t_root in enumerate(roots)]", "    g_new = [ev_f[idx](t_root + D.epsilon(roots[0].dtype) ** 0.5) for idx, t_root in enumerate(roots)]"))
V("C17-s-vec-strict-equiv", "C17", "silent", (UTL, "        msk1 = val > mid_vals\n        msk2 = val <= mid_vals", "        msk1 = val >= mid_vals\n        msk2 = val < mid_vals"))
V("C17-j-vec-final", "C17", "C17.5", (UTL, "jlower = D.ar_numpy.where(D.ar_numpy.take(array, jlower, axis=0) < val, jupper, jlower)", "jlower = D.ar_numpy.where(D.ar_numpy.take(array, jlower, axis=0) <= val, jupper, jlower)"))
V("C17-s-vec-equiv", "C17", "silent", (UTL, "        msk1 = val > mid_vals\n        msk2 = val <= mid_vals", "        msk2 = val <= mid_vals\n        msk1 = D.ar_numpy.logical_not(msk2)"))
V("C01-l-adaptivity-inverted", "C01", "C01.6", (ITY, "        return self._adaptive and self._adaptivity_enabled\n    \n    @is_adaptive.setter\n    def is_adaptive(self, adaptivity):\n        self._adaptivity_enabled = adaptivity\n\n    @property\n    def stages(self):\n        return self.tableau_intermediate.shape[0]", "        return self._adaptive and not self._adaptivity_enabled\n    \n    @is_adaptive.setter\n    def is_adaptive(self, adaptivity):\n        self._adaptivity_enabled = adaptivity\n\n    @property\n    def stages(self):\n        return self.tableau_intermediate.shape[0]"))
V("C04-j-controller-back", "C04", "C04.2", (ITY, "            if not self.is_adaptive:\n                # no embedded error estimate: keep the step that was taken\n                timestep, redo_step = self.dTime, False\n", ""))
V("C06-k-fsal-implicit", "C06", "C06.6", (ITY, "        if self.is_fsal and self.is_explicit:\n            self.dState = intermediate_dstate\n            self.final_rhs = intermediate_rhs\n        else:\n            self.dState = timestep * D.ar_numpy.sum(self.stage_values * self.tableau_final[0, 1:], axis=-1)\n            self.final_rhs = rhs(",
   "        if self.is_fsal and self.is_explicit:\n            self.dState = intermediate_dstate\n        else:\n            self.dState = timestep * D.ar_numpy.sum(self.stage_values * self.tableau_final[0, 1:], axis=-1)\n        if self.is_fsal:\n            self.final_rhs = intermediate_rhs\n        else:\n            self.final_rhs = rhs("))
V("C09-l-sort-elapsed", "C09", "C09.1", (DS, "order = D.ar_numpy.argsort(D.ar_numpy.sign(t_next - t_prev) * roots)", "order = D.ar_numpy.argsort(roots - t_prev)"))
V("C14-g-endpoint-reject", "C14", "C14.5", (OPT, "    if D.ar_numpy.sign(fa) * D.ar_numpy.sign(fb) > 0:\n        return D.ar_numpy.asarray(numpy.inf, like=lower_bound), False", "    if D.ar_numpy.sign(fa) * D.ar_numpy.sign(fb) >= 0:\n        return D.ar_numpy.asarray(numpy.inf, like=lower_bound), False"))
V("C14-h-vec-no-zero", "C14", "C14.5", (OPT, "        true_conv = D.ar_numpy.logical_or(bracketed, fb == 0)\n\n    if verbose:", "        true_conv = bracketed\n\n    if verbose:"))
V("C14-s-reject-flipped", "C14", "silent", (OPT, "    if D.ar_numpy.sign(fa) * D.ar_numpy.sign(fb) > 0:\n        return D.ar_numpy.asarray(numpy.inf, like=lower_bound), False", "    if 0 < D.ar_numpy.sign(fa) * D.ar_numpy.sign(fb):\n        return D.ar_numpy.asarray(numpy.inf, like=lower_bound), False"))
V("C15-i-nan-accept", "C15", "C15.4", (OPT, "        no_progress = not (D.ar_numpy.max(gain) > 0)", "        no_progress = D.ar_numpy.max(gain) <= 0"))
V("C15-s-accept-positive", "C15", "silent", (OPT, "        no_progress = not (D.ar_numpy.max(gain) > 0)\n        if not no_progress:", "        progress = D.ar_numpy.max(gain) > 0\n        no_progress = not progress\n        if progress:"))
V("C20-l-alias-rhs", "C20", "C20.5", (DS, "            import copy\n            self.equ_rhs = copy.copy(equ_rhs)", "            self.equ_rhs = equ_rhs"))
V("C13-m-alias-rhs", "C13", "C13.3", (DS, "            import copy\n            self.equ_rhs = copy.copy(equ_rhs)", "            self.equ_rhs = equ_rhs"))
V("C19-j-signed-nearest", "C19", "C19.2", (DS, "                nearest_idx = int(D.ar_numpy.argmin(D.ar_numpy.abs(self.t - index)))", "                nearest_idx = int(D.ar_numpy.argmin(self.t - index))"))
V("C04-k-overshoot-t0", "C04", "C04.5", (DS, "D.ar_numpy.abs(self.dt) > D.ar_numpy.abs(tf - self.__t[self.counter]):\n                    is_final_step = True", "D.ar_numpy.abs(self.__t[self.counter] + self.dt - self.t0) > D.ar_numpy.abs(tf - self.t0):\n                    is_final_step = True"))
V("C08-h-sort-abs", "C08", "C08.4", (DS, "order = D.ar_numpy.argsort(D.ar_numpy.sign(t_next - t_prev) * roots)", "order = D.ar_numpy.argsort((roots - t_prev) / D.ar_numpy.abs(t_next - t_prev))"))
V("C08-s-sort-equiv", "C08", "silent", (DS, "order = D.ar_numpy.argsort(D.ar_numpy.sign(t_next - t_prev) * roots)", "order = D.ar_numpy.argsort(roots * D.ar_numpy.sign(t_next - t_prev))"))
V("C11-e-signed-residual", "C11", "C11.3", (ITY, 'self.solver_dict["newton_iteration_success"] and prec < desired_tol', 'self.solver_dict["newton_iteration_success"] and timestep * prec < desired_tol'))
V("C17-k-vec-cast", "C17", "C17.5", (UTL, "    val = D.ar_numpy.asarray(val)\n    array = D.ar_numpy.asarray(array)\n    i64_type", "    array = D.ar_numpy.asarray(array)\n    val = D.ar_numpy.asarray(val, dtype=array.dtype)\n    i64_type"))
V("C10-h-cached-slope", "C10", "C10.4", (ITY, "                self.initial_rhs = rhs(current_time, initial_state + self.dState, **constants)\n                aux = timestep * self.initial_rhs", "                if self.initial_rhs is None:\n                    self.initial_rhs = rhs(current_time, initial_state + self.dState, **constants)\n                aux = timestep * self.initial_rhs"))
V("C05-k-rich-noretry", "C05", "C05.5", (ITY, "            if redo_step:\n                timestep, (self.dTime, self.dState) = self(rhs, initial_time, initial_state, constants,\n                                                           next_timestep)\n            else:\n                timestep = next_timestep", "            timestep = next_timestep"))
V("C05-l-rich-retry-same", "C05", "C05.5", (ITY, "                timestep, (self.dTime, self.dState) = self(rhs, initial_time, initial_state, constants,\n                                                           next_timestep)", "                timestep, (self.dTime, self.dState) = self(rhs, initial_time, initial_state, constants,\n                                                           dt0)"))
V("C05-m-rich-redo-cleared", "C05", "C05.5", (ITY, "            else:\n                next_timestep = new_timestep\n", "            else:\n                next_timestep = new_timestep\n                redo_step = False\n"))
V("C05-n-rich-estimate", "C05", "C05.5", (ITY, "self.stage_values[m - 1, n - 1]), self.stage_values[m - 1, m - 1] - self.stage_values[m, m]", "self.stage_values[m - 1, n - 1]), self.stage_values[m - 1, m - 1] - self.stage_values[m - 1, m - 2]"))
V("C14-i-bracket-wrong-sign", "C14", "C14.6", (OPT, "        if D.ar_numpy.sign(fa) * D.ar_numpy.sign(fs) < 0:\n            b = s\n            fb = fs\n        else:\n            a = s\n            fa = fs", "        if D.ar_numpy.sign(fb) * D.ar_numpy.sign(fs) < 0:\n            b = s\n            fb = fs\n        else:\n            a = s\n            fa = fs"))
V("C14-j-bracket-unpaired", "C14", "C14.6", (OPT, "        if D.ar_numpy.sign(fa) * D.ar_numpy.sign(fs) < 0:\n            b = s\n            fb = fs\n        else:\n            a = s\n            fa = fs", "        if D.ar_numpy.sign(fa) * D.ar_numpy.sign(fs) < 0:\n            b = s\n            fb = fs\n        else:\n            a = s"))
V("C14-k-no-swap", "C14", "C14.6", (OPT, "        if D.ar_numpy.abs(fa) < D.ar_numpy.abs(fb):\n            a, b = b, a\n            fa, fb = fb, fa\n        conv = (fb == 0", "        conv = (fb == 0"))
V("C14-l-vec-bracket", "C14", "C14.6", (OPT, "        mask = D.ar_numpy.sign(fa) * D.ar_numpy.sign(fs) < 0\n        mask[not_conv] = False\n        b[mask] = s[mask]\n        fb[mask] = fs[mask]", "        mask = D.ar_numpy.sign(fa) * D.ar_numpy.sign(fs) < 0\n        mask[not_conv] = False\n        b[mask] = s[mask]\n        fb[mask] = fb[mask]"))
V("C14-s-bracket-swapped-branches", "C14", "silent", (OPT, "        if D.ar_numpy.sign(fa) * D.ar_numpy.sign(fs) < 0:\n            b = s\n            fb = fs\n        else:\n            a = s\n            fa = fs", "        if not (D.ar_numpy.sign(fa) * D.ar_numpy.sign(fs) < 0):\n            a, fa = s, fs\n        else:\n            b, fb = s, fs"))
V("C03-n-restore-prev", "C03", "C03.6", (DS, "                            self.__t[self.counter + 1] = next_time\n", "                            self.__t[self.counter + 1] = prev_time\n"))
V("C03-o-restore-stale-state", "C03", "C03.6", (DS, "                        next_state = self.__y[self.counter]\n", "                        next_state = self.__y[self.counter - 1] + dState\n"))
V("C03-p-final-step-stops-loop", "C03", "C03.7", (DS, "                if not is_final_step:\n                    self.dt = new_dt\n", "                if not is_final_step:\n                    self.dt = new_dt\n                else:\n                    end_int = True\n"))
V("C03-q-final-step-break", "C03", "C03.7", (DS, "                steps += 1\n", "                steps += 1\n                if is_final_step:\n                    break\n"))
V("C02-s-stage-loop-from-1", "C02", "C02.2", (RKM, "    for stage in range(intermediate_stages_in.shape[-1]):", "    for stage in range(1, intermediate_stages_in.shape[-1]):"))
V("C01-s-stage-loop-from-1", "C01", "C01.7", (RKM, "    for stage in range(intermediate_stages_in.shape[-1]):", "    for stage in range(1, intermediate_stages_in.shape[-1]):"))
V("C01-t-stage-loop-from-0-silent", "C01", "silent", (RKM, "    for stage in range(intermediate_stages_in.shape[-1]):", "    for stage in range(0, intermediate_stages_in.shape[-1]):"))
V("C07-s-sentinel-unchecked", "C07", "C07.7", (DS, "                                if not self.__events or last_occurrence[active_events[ev_idx]] == -1:", "                                if not self.__events:"))
V("C09-s-sentinel-unchecked", "C09", "C09.5", (DS, "                                if not self.__events or last_occurrence[active_events[ev_idx]] == -1:", "                                if not self.__events:"))
V("C07-t-sentinel-ge0-silent", "C07", "silent", (DS, "                                if not self.__events or last_occurrence[active_events[ev_idx]] == -1:", "                                if not self.__events or last_occurrence[active_events[ev_idx]] < 0:"))
V("C19-s-dir-from-span", "C19", "C19.2", (DS, "            __dir = D.ar_numpy.sign(self.t[-1] - self.t[0])\n            if index.start", "            __dir = D.ar_numpy.sign(self.tf - self.t0)\n            if index.start"))
V("C19-t-dir-from-dt", "C19", "C19.2", (DS, "            __dir = D.ar_numpy.sign(self.t[-1] - self.t[0])\n            if index.start", "            __dir = D.ar_numpy.sign(self.dt)\n            if index.start"))
V("C18-s-teval-unique", "C18", "C18.7", (DS, "        t_eval = __dir * D.ar_numpy.sort(__dir * D.ar_numpy.asarray(t_eval))", "        t_eval = __dir * D.ar_numpy.unique(__dir * D.ar_numpy.asarray(t_eval))"))
V("C18-t-teval-slice", "C18", "C18.7", (DS, "        t_eval = __dir * D.ar_numpy.sort(__dir * D.ar_numpy.asarray(t_eval))", "        t_eval = __dir * D.ar_numpy.sort(__dir * D.ar_numpy.asarray(t_eval))[1:]"))
V("C18-u-teval-neg-sort-silent", "C18", "silent", (DS, "        t_eval = __dir * D.ar_numpy.sort(__dir * D.ar_numpy.asarray(t_eval))", "        t_eval = D.ar_numpy.asarray(t_eval)\n        t_eval = D.ar_numpy.sort(t_eval * __dir) * __dir"))
V("C08-s-probe-abs-width", "C08", "C08.5", (DS, "    g = [ev_f[idx](t_root - (t_next - t_prev) * D.epsilon(roots[0].dtype) ** 0.5) for idx, t_root in enumerate(roots)]", "    g = [ev_f[idx](t_root - D.ar_numpy.abs(t_next - t_prev) * D.epsilon(roots[0].dtype) ** 0.5) for idx, t_root in enumerate(roots)]"))
V("C15-s-scalar-passthrough", "C15", "C15.3", (OPT, "        res = nonlinear_roots(f_vec, D.ar_numpy.atleast_1d(x0), jac_vec, tol=tol, verbose=verbose, maxiter=maxiter)\n        return D.ar_numpy.reshape(res[0], xshape), res[1]", "        return nonlinear_roots(f_vec, D.ar_numpy.atleast_1d(x0), jac_vec, tol=tol, verbose=verbose, maxiter=maxiter)"))
V("C15-t-scalar-passthrough-name", "C15", "C15.3", (OPT, "        res = nonlinear_roots(f_vec, D.ar_numpy.atleast_1d(x0), jac_vec, tol=tol, verbose=verbose, maxiter=maxiter)\n        return D.ar_numpy.reshape(res[0], xshape), res[1]", "        res = nonlinear_roots(f_vec, D.ar_numpy.atleast_1d(x0), jac_vec, tol=tol, verbose=verbose, maxiter=maxiter)\n        return res"))
V("C10-s-newton-or", "C10", "C10.5", (ITY, 'self.solver_dict["newton_iteration_success"] and prec < desired_tol', 'self.solver_dict["newton_iteration_success"] or prec < desired_tol'))
V("C12-s-no-raise", "C12", "C12.7", (ITY, "                if redo_step:\n                    raise exception_types.FailedToMeetTolerances(", "                if False:\n                    raise exception_types.FailedToMeetTolerances("))
_SWAP_OLD = "                    if not self.is_adaptive:\n                        timestep, redo_step = self.dTime, False\n                    if self.is_implicit and not self.solver_dict.get(\"newton_iteration_success\"):\n                        redo_step = True\n                        timestep = timestep * 0.8\n"
_SWAP_NEW = "                    if self.is_implicit and not self.solver_dict.get(\"newton_iteration_success\"):\n                        redo_step = True\n                        timestep = timestep * 0.8\n                    if not self.is_adaptive:\n                        timestep, redo_step = self.dTime, False\n"
V("C10-t-override-after-newton", "C10", "C10.5", (ITY, _SWAP_OLD, _SWAP_NEW))
V("C12-t-override-after-newton", "C12", "C12.7", (ITY, _SWAP_OLD, _SWAP_NEW))
V("C02-t-override-after-newton", "C02", "C02.4", (ITY, _SWAP_OLD, _SWAP_NEW))
V("C10-u-class-property-read", "C10", "C10.6", (DS, "if self.__method.symplectic and issubclass(self.__method, integrators.ExplicitSymplecticIntegrator):", "if self.__method.symplectic and not self.__method.is_implicit:"))
V("C10-v-missing-backend-name", "C10", "C10.6", (ITY, "self.staggered_mask = D.ar_numpy.astype(D.ar_numpy.asarray(staggered_mask, like=self.tableau_intermediate), ", "self.staggered_mask = D.astype(D.ar_numpy.asarray(staggered_mask, like=self.tableau_intermediate), "))
V("C14-m-product-sign-reject", "C14", "C14.7", (OPT, "    if D.ar_numpy.sign(fa) * D.ar_numpy.sign(fb) > 0:\n        return", "    if fa * fb > 0:\n        return"))
V("C14-n-product-sign-update", "C14", "C14.7", (OPT, "        if D.ar_numpy.sign(fa) * D.ar_numpy.sign(fs) < 0:\n            b = s", "        if fa * fs < 0:\n            b = s"))
V("C14-o-product-sign-vec", "C14", "C14.7", (OPT, "        mask = D.ar_numpy.sign(fa) * D.ar_numpy.sign(fs) < 0\n", "        mask = fa * fs < 0\n"))
V("C08-t-product-sign-vec", "C08", "C08.6", (OPT, "    bracketed = D.ar_numpy.sign(fa) * D.ar_numpy.sign(fb) < 0\n", "    bracketed = fa * fb < 0\n"))
V("C16-s-fd-weights-old", "C16", "C16.6", (UTL, "                    A[m].append(A[m][n - 1] + (A[m][n - 1] - A[m - 1][n - 1]) / (factor ** (lead + 2 * (n - 1)) - 1))\n                if m >= 3:", "                    A[m].append(A[m][n - 1] + (A[m][n - 1] - A[m - 1][n - 1]) / ((factor ** self.base_order) ** n - 1))\n                if m >= 3:"))
V("C16-t-fd-lead-odd", "C16", "C16.6", (UTL, "        lead = self.base_order - self.base_order % 2\n        prev_error", "        lead = self.base_order\n        prev_error"))
V("C16-u-fd-moment-order", "C16", "C16.6", (UTL, "    b_vector[order] = 1.0", "    b_vector[order - 1] = 1.0"))
V("C08-u-sentinel-unchecked", "C08", "C08.7", (DS, "                                if not self.__events or last_occurrence[active_events[ev_idx]] == -1:", "                                if not self.__events:"))
V("C04-s-prehalving-signed", "C04", "C04.6", (DS, "        if D.ar_numpy.abs(self.dt) > D.ar_numpy.abs(tf - self.__t[self.counter]):\n            self.dt = D.ar_numpy.abs(tf - self.__t[self.counter]) * 0.5", "        if self.dt > tf - self.__t[self.counter]:\n            self.dt = (tf - self.__t[self.counter]) * 0.5"))
V("C04-t-prehalving-always", "C04", "C04.6", (DS, "        if D.ar_numpy.abs(self.dt) > D.ar_numpy.abs(tf - self.__t[self.counter]):\n            self.dt = D.ar_numpy.abs(tf - self.__t[self.counter]) * 0.5", "        if True:\n            self.dt = D.ar_numpy.abs(tf - self.__t[self.counter]) * 0.5"))
V("C09-u-far-edge-open-backward", "C09", "C09.6", (DS, "                                true_positive = (prev_time + dTime <= root) & (root <= self.__t[self.counter])", "                                true_positive = (prev_time + dTime < root) & (root <= self.__t[self.counter])"))
V("C07-u-far-edge-open-forward", "C07", "C07.5", (DS, "                                true_positive = (self.__t[self.counter] <= root) & (root <= prev_time + dTime)", "                                true_positive = (self.__t[self.counter] <= root) & (root < prev_time + dTime)"))
V("C10-w-mask-dropped-on-method-change", "C10", "C10.6", (DS, "        if staggered_mask is None:\n            if hasattr(self.integrator, \"staggered_mask\"):\n                return self.integrator.staggered_mask\n            return self.staggered_mask\n        return staggered_mask", "        if staggered_mask is None and hasattr(self.integrator, \"staggered_mask\"):\n            return self.integrator.staggered_mask\n        return staggered_mask"))
V("C10-x-mask-nonzero-rows", "C10", "C10.7", (ITY, "            self.staggered_mask = D.ar_numpy.astype(D.ar_numpy.asarray(staggered_mask, like=self.tableau_intermediate), D.autoray.to_backend_dtype('bool', like=self.tableau_intermediate))", "            staggered_mask = D.ar_numpy.nonzero(D.ar_numpy.asarray(staggered_mask, like=self.tableau_intermediate))[0]\n            self.staggered_mask = D.ar_numpy.zeros(sys_dim, dtype=D.autoray.to_backend_dtype('bool', like=self.tableau_intermediate), like=self.tableau_intermediate)\n            self.staggered_mask[staggered_mask] = 1"))

V("C15-u-dxn-only-on-accept", "C15", "C15.5", (OPT, "                dx = __dx\n                F1 = __f", "                dx = __dx\n                dxn = D.ar_numpy.linalg.norm(dx).reshape(tuple())\n                F1 = __f"), (OPT, "                break\n        dxn = D.ar_numpy.linalg.norm(dx).reshape(tuple())\n", "                break\n"))
V("C15-v-dxn-extra-def-silent", "C15", "silent", (OPT, "                dx = __dx\n                F1 = __f", "                dx = __dx\n                dxn = D.ar_numpy.linalg.norm(dx).reshape(tuple())\n                F1 = __f"))
V("C02-u-splitting-clock-first", "C02", "C02.5", (ITY, "            current_time = current_time + timestep * self.tableau_intermediate[stage, 1]\n            self.dState += aux", "            self.dState += aux"), (ITY, "        for stage in range(D.ar_numpy.shape(self.tableau_intermediate)[0]):\n            if stage == 0:", "        for stage in range(D.ar_numpy.shape(self.tableau_intermediate)[0]):\n            current_time = current_time + timestep * self.tableau_intermediate[stage, 1]\n            if stage == 0:"))
V("C02-v-splitting-clock-kick-col", "C02", "C02.5", (ITY, "            current_time = current_time + timestep * self.tableau_intermediate[stage, 1]\n", "            current_time = current_time + timestep * self.tableau_intermediate[stage, 2]\n"))
V("C04-u-proposal-always", "C04", "C04.4", (DS, "                    is_final_step = True\n", ""), (DS, "                    is_final_step = False\n", ""), (DS, "                if not is_final_step:\n                    self.dt = new_dt\n", "                self.dt = new_dt\n"))
V("C05-s-final-time-is-tf", "C05", "C05.6", (DS, "                self.__t[self.counter + 1] = self.__t[self.counter] + dTime\n", "                self.__t[self.counter + 1] = tf if is_final_step else self.__t[self.counter] + dTime\n"))
V("C05-t-record-requested-step", "C05", "C05.6", (DS, "                self.__t[self.counter + 1] = self.__t[self.counter] + dTime\n", "                self.__t[self.counter + 1] = self.__t[self.counter] + dt\n"))
V("C06-s-remove-one-piece", "C06", "C06.5", (DS, "                            for _ in range(len(self.__sol) - __pre_length):\n                                self.__sol.remove_interpolant(-1 if dTime >= 0 else 0)\n", "                            self.__sol.remove_interpolant(-1 if dTime >= 0 else 0)\n"))
V("C09-v-remove-one-piece", "C09", "C09.3", (DS, "                            for _ in range(len(self.__sol) - __pre_length):\n                                self.__sol.remove_interpolant(-1 if dTime >= 0 else 0)\n", "                            self.__sol.remove_interpolant(-1 if dTime >= 0 else 0)\n"))
V("C08-v-truncate-before-sort", "C08", "C08.8", (DS, "        order = D.ar_numpy.argsort(D.ar_numpy.sign(t_next - t_prev) * roots)\n        active_events = active_events[order]\n        roots = roots[order]\n        evs = [evs[idx] for idx in order]\n\n", ""), (DS, "            terminate = True\n\n    return active_events", "            terminate = True\n\n        order = D.ar_numpy.argsort(D.ar_numpy.sign(t_next - t_prev) * roots)\n        active_events = active_events[order]\n        roots = roots[order]\n        evs = [evs[idx] for idx in order]\n\n    return active_events"))
V("C03-r-at-target-allclose", "C03", "C03.8", (DS, "        if D.ar_numpy.abs(tf - self.__t[self.counter]) < D.epsilon(self.__y[self.counter].dtype):\n            return", "        if D.ar_numpy.allclose(self.__t[self.counter], tf):\n            return"))
V("C03-s-at-target-loose", "C03", "C03.8", (DS, "        if D.ar_numpy.abs(tf - self.__t[self.counter]) < D.epsilon(self.__y[self.counter].dtype):\n            return", "        if D.ar_numpy.abs(tf - self.__t[self.counter]) < 1e-8:\n            return"))
TPL = "desolver/integrators/integrator_template.py"
V("C05-u-nan-guard-removed", "C05", "C05.7", (TPL, "            if epsilon_last is None:\n                corr = D.ar_numpy.where(epsilon_current > 0.0, epsilon_current ** (1.0 / order), 1.0)", "            if epsilon_last is None:\n                corr = epsilon_current ** (1.0 / order)"))
V("C12-u-nan-guard-removed", "C12", "C12.8", (TPL, "            if epsilon_last is None:\n                corr = D.ar_numpy.where(epsilon_current > 0.0, epsilon_current ** (1.0 / order), 1.0)", "            if epsilon_last is None:\n                corr = epsilon_current ** (1.0 / order)"))
V("C05-v-nan-negated-compare-silent", "C05", "silent", (TPL, "            return timestep, bool(corr < 0.9**2)", "            return timestep, not bool(corr >= 0.9**2)"))
V("C13-s-rtol-inplace", "C13", "C13.5", (DS, "        self.__rtol = D.ar_numpy.asarray(new_rtol, **self.__array_con_kwargs)\n        self.initialise_integrator()", "        self.__rtol = D.ar_numpy.asarray(new_rtol, **self.__array_con_kwargs)\n        self.integrator.rtol = self.__rtol"))
V("C14-p-tol-floor-fixed-type", "C14", "C14.8", (OPT, "    if tol < D.epsilon(lower_bound.dtype):\n        tol = D.epsilon(lower_bound.dtype)\n    tol = D.ar_numpy.asarray(tol, like=lower_bound)\n    a, b = D.ar_numpy.asarray(lower_bound), D.ar_numpy.asarray(upper_bound)", "    if tol < D.epsilon(numpy.float64):\n        tol = D.epsilon(numpy.float64)\n    tol = D.ar_numpy.asarray(tol, like=lower_bound)\n    a, b = D.ar_numpy.asarray(lower_bound), D.ar_numpy.asarray(upper_bound)"))
V("C16-v-estimate-caches", "C16", "C16.7", (UTL, "        dy_val = self.rhs(y, *args, **kwargs)\n        unravelled_dy", "        dy_val = self.rhs(y, *args, **kwargs)\n        self._last_dy = dy_val\n        unravelled_dy"))
V("C19-u-negative-index-shift", "C19", "C19.1b", (DS, "        if isinstance(index, int):\n            if index > self.counter:", "        if isinstance(index, int):\n            if index < 0:\n                index += self.counter + 1\n            if index > self.counter:"))
V("C19-v-negative-index-shift-checked-silent", "C19", "silent", (DS, "        if isinstance(index, int):\n            if index > self.counter:", "        if isinstance(index, int):\n            if index < 0:\n                index += self.counter + 1\n                if index < 0:\n                    raise IndexError(\"index out of bounds\")\n            if index > self.counter:"))
V("C20-s-callback-list-aliased", "C20", "C20.3", (DS, "        elif isinstance(callback, (tuple,list)):\n            callback = list(callback)\n        else:\n            callback = [callback]", "        elif not isinstance(callback, (tuple, list)):\n            callback = [callback]"))

V("C11-s-last-row-propagation", "C11", "C11.4", (ITY, "        else:\n            self.dState = timestep * D.ar_numpy.sum(self.stage_values * self.tableau_final[0, 1:], axis=-1)\n            self.final_rhs", "        elif self.is_implicit and self.tableau_intermediate[-1, 0] == 1.0:\n            self.dState = timestep * D.ar_numpy.sum(self.stage_values * self.tableau_intermediate[-1, 1:], axis=-1)\n            self.final_rhs = D.ar_numpy.copy(self.stage_values[..., -1])\n        else:\n            self.dState = timestep * D.ar_numpy.sum(self.stage_values * self.tableau_final[0, 1:], axis=-1)\n            self.final_rhs"))
INTERP = "desolver/utilities/interpolation.py"
V("C06-t-find-interval-cache", "C06", "C06.9", (DS, "        idx = min(deutil.search_bisection(self.t_eval, t), len(self.y_interpolants) - 1)\n", "        idx = min(deutil.search_bisection(self.t_eval, t), len(self.y_interpolants) - 1)\n        self._last_idx = idx\n"))
V("C19-w-getitem-cache", "C19", "C19.7", (DS, "                nearest_idx = int(D.ar_numpy.argmin(D.ar_numpy.abs(self.t - index)))\n", "                nearest_idx = int(D.ar_numpy.argmin(D.ar_numpy.abs(self.t - index)))\n                self._nearest = nearest_idx\n"))
V("C17-s-interp-cache", "C17", "C17.6", (INTERP, "        t2 = t**2\n", "        self._t_last = t\n        t2 = t**2\n"))
V("C06-u-cache-not-invalidated", "C06", "C06.10", (DS, "                self.t_eval = [i.to(D.ar_numpy.asarray(t)) for i in self.t_eval]\n            self.__t_eval_arr_stale = True\n", "                self.t_eval = [i.to(D.ar_numpy.asarray(t)) for i in self.t_eval]\n"))
V("C06-v-remove-no-invalidate", "C06", "C06.10", (DS, "        out = self.t_eval.pop(idx), self.y_interpolants.pop(idx)\n        self.__t_eval_arr_stale = True\n", "        out = self.t_eval.pop(idx), self.y_interpolants.pop(idx)\n"))
V("C03-t-fix-dt-dir-abs-sign", "C03", "C03.9", (DS, "        if D.ar_numpy.sign(self.__dt) != D.ar_numpy.sign(t1 - t0):\n            self.__dt = -self.__dt\n        else:\n            self.__dt = self.__dt\n", "        self.__dt = D.ar_numpy.abs(self.__dt) * D.ar_numpy.sign(t1 - t0)\n"))
V("C04-v-loop-guard-signed", "C04", "C04.7", (DS, "D.ar_numpy.abs(tf - self.__t[self.counter]) >= D.tol_epsilon(self.__y[self.counter].dtype))) and not end_int:", "D.ar_numpy.sign(self.dt) * (tf - self.__t[self.counter]) >= D.tol_epsilon(self.__y[self.counter].dtype))) and not end_int:"))
V("C02-w-newton-tol-swapped", "C02", "C02.6", (ITY, "            desired_tol = D.ar_numpy.max(D.ar_numpy.abs(self.atol + D.ar_numpy.max(D.ar_numpy.abs(self.rtol * initial_state)))) * 0.5", "            desired_tol = 0.5 * D.ar_numpy.max(self.rtol + self.atol * D.ar_numpy.max(D.ar_numpy.abs(initial_state)))"))
V("C13-t-reset-early-return", "C13", "C13.6", (DS, "        \"\"\"Resets the system to the initial time.\"\"\"\n", "        \"\"\"Resets the system to the initial time.\"\"\"\n        if self.__int_status == 0:\n            return\n"))
V("C20-t-reset-early-return", "C20", "C20.6", (DS, "        \"\"\"Resets the system to the initial time.\"\"\"\n", "        \"\"\"Resets the system to the initial time.\"\"\"\n        if self.__int_status == 0:\n            return\n"))
V("C15-w-relative-residual", "C15", "C15.7", (OPT, "        success = success or Fn1 < 0.8 * tol\n", "        success = success or Fn1 < 0.8 * tol * (1 + Fn0)\n"))
V("C12-v-handler-reraise-only-silent", "C12", "silent", (DS, "        except Exception as e:\n            new_e = etypes.FailedIntegration(\"Failed to integrate system\")", "        except etypes.FailedIntegration:\n            raise\n        except Exception as e:\n            new_e = etypes.FailedIntegration(\"Failed to integrate system\")"))
V("C13-u-inplace-on-alias", "C13", "C13.7", (ITY, "                next_timestep = D.ar_numpy.copy(dt0)\n", "                next_timestep = dt0\n"))
V("C19-x-remove-last-always", "C19", "C19.8", (DS, "                                self.__sol.remove_interpolant(-1 if dTime >= 0 else 0)\n", "                                self.__sol.remove_interpolant(-1)\n"))

V("C08-w-window-direction-hoisted", "C08", "C08.9", (DS, "        end_int = False\n        self.__allocate_soln_space(total_steps)", "        end_int = False\n        forward = self.dt >= 0\n        self.__allocate_soln_space(total_steps)"), (DS, "                            if dTime >= 0:\n                                true_positive", "                            if forward:\n                                true_positive"))
V("C08-x-window-by-current-dt-silent", "C08", "silent", (DS, "                            if dTime >= 0:\n                                true_positive", "                            if self.dt >= 0:\n                                true_positive"))

# ---- round 8 rules ---------------------------------------------------------------------------------
V("C06-w-affine-precomputed", "C06", "C06.11", (INTERP, "        return (t - self.tshift)/self.trange\n", "        return t * (1.0 / self.trange) - self.tshift * (1.0 / self.trange)\n"))
V("C06-x-affine-reordered-silent", "C06", "silent", (INTERP, "        return (t - self.tshift)/self.trange\n", "        shifted = t - self.tshift\n        return shifted / self.trange\n"))
V("C09-w-empty-store", "C09", "C09.7", (DS, "            if self.t_eval is None or len(self.t_eval) == 0:\n", "            if self.t_eval is None:\n"))
V("C06-y-empty-store", "C06", "C06.12", (DS, "            if self.t_eval is None or len(self.t_eval) == 0:\n", "            if self.t_eval is None:\n"))
V("C09-x-empty-store-truthiness-silent", "C09", "silent", (DS, "            if self.t_eval is None or len(self.t_eval) == 0:\n", "            if not self.t_eval:\n"))
V("C07-w-dedup-latest-record", "C07", "C07.2", (DS, "elif D.ar_numpy.abs(ev_state.t - self.__events[last_occurrence[active_events[ev_idx]]].t) >", "elif D.ar_numpy.abs(ev_state.t - self.__events[-1].t) >"))
V("C08-y-dedup-latest-record", "C08", "C08.10", (DS, "elif D.ar_numpy.abs(ev_state.t - self.__events[last_occurrence[active_events[ev_idx]]].t) >", "elif D.ar_numpy.abs(ev_state.t - self.__events[-1].t) >"))
V("C07-x-dedup-local-index-silent", "C07", "silent", (DS, "                                elif D.ar_numpy.abs(ev_state.t - self.__events[last_occurrence[active_events[ev_idx]]].t) >", "                                elif D.ar_numpy.abs(ev_state.t - self.__events[last_occurrence[active_events[ev_idx]]].t - 0.0) >"))
V("C07-y-vec-success-abs-tol", "C07", "C07.8", (OPT, "    true_conv = D.ar_numpy.logical_or(bracketed, fb == 0)\n\n    while", "    true_conv = D.ar_numpy.logical_or(bracketed, D.ar_numpy.abs(fb) <= tol)\n\n    while"))
V("C05-w-rtol-inplace", "C05", "C05.8", (DS, "        self.__rtol = D.ar_numpy.asarray(new_rtol, **self.__array_con_kwargs)\n        self.initialise_integrator()", "        self.__rtol = D.ar_numpy.asarray(new_rtol, **self.__array_con_kwargs)\n        self.integrator.rtol = self.__rtol"))
V("C02-x-hybrj-step-norm-slot", "C02", "C02.7", (OPT, "            return x, (success, iterations, nfev, njev, D.ar_numpy.linalg.norm(F))\n        else:", "            return x, (success, iterations, nfev, njev, prec)\n        else:"))
V("C03-u-retry-signed-min", "C03", "C03.10", (ITY, "D.ar_numpy.sign(current_timestep) * D.ar_numpy.minimum(D.ar_numpy.abs(timestep), D.ar_numpy.abs(current_timestep)))\n                    except", "D.ar_numpy.minimum(timestep, D.ar_numpy.abs(current_timestep)))\n                    except"))
V("C11-t-tol-relative-to-guess", "C11", "C11.6", (ITY, "D.ar_numpy.max(D.ar_numpy.abs(self.rtol * initial_state)))) * 0.5", "D.ar_numpy.max(D.ar_numpy.abs(self.rtol * initial_guess)))) * 0.5"))
V("C12-w-retry-swallows", "C12", "C12.9", (ITY, "                    except (*D.linear_algebra_exceptions, ValueError):\n                        self._requires_high_precision = True\n                        timestep, (self.dTime, self.dState) = self.step(rhs, initial_time, initial_state, constants,\n                                                                             D.ar_numpy.sign", "                    except Exception:\n                        self._requires_high_precision = True\n                        timestep, (self.dTime, self.dState) = self.step(rhs, initial_time, initial_state, constants,\n                                                                             D.ar_numpy.sign"))
V("C12-x-broad-but-reraises-silent", "C12", "silent", (DS, "            try:\n                y_interp(t)\n            except:\n                raise", "            try:\n                y_interp(t)\n            except Exception:\n                raise"))
V("C14-q-relative-width-stop", "C14", "C14.1", (OPT, "        conv = (fb == 0 or fs == 0 or D.ar_numpy.abs(b - a) < tol)", "        conv = (fb == 0 or fs == 0 or D.ar_numpy.abs(b - a) < tol or D.ar_numpy.abs(b - a) < tol * D.ar_numpy.abs(b))"))
V("C16-w-copy-needs-initialised", "C16", "C16.1", (DS, "        if not self.jac_is_wrapped_rhs:\n            __new_diff_rhs.hook_jacobian_call(self.__jac)", "        if self.__jac_initialised and not self.jac_is_wrapped_rhs:\n            __new_diff_rhs.hook_jacobian_call(self.__jac)"))
V("C16-x-copy-never-hooks", "C16", "C16.1", (DS, "        if not self.jac_is_wrapped_rhs:\n            __new_diff_rhs.hook_jacobian_call(self.__jac)\n        return __new_diff_rhs\n\n    def __deepcopy__", "        return __new_diff_rhs\n\n    def __deepcopy__"))
V("C17-t-grad-shortcut-range", "C17", "C17.3", (INTERP, "        if t_aff == 0.0:\n            return self.m0\n        elif t_aff == 1.0:", "        if t_aff <= 0.0:\n            return self.m0\n        elif t_aff >= 1.0:"))
V("C18-u-first-step-unclamped", "C18", "C18.8", (DS, "    initial_dt = options.get('first_step', 1.0)\n    initial_dt = D.ar_numpy.minimum(initial_dt, max_step)\n", "    initial_dt = options.get('first_step', D.ar_numpy.minimum(1.0, max_step))\n"))
V("C18-v-first-step-clip-silent", "C18", "silent", (DS, "    initial_dt = D.ar_numpy.minimum(initial_dt, max_step)\n    initial_dt = D.ar_numpy.maximum(initial_dt, min_step)\n", "    initial_dt = D.ar_numpy.maximum(D.ar_numpy.minimum(initial_dt, max_step), min_step)\n"))
V("C19-y-find-interval-wrap", "C19", "C19.9", (DS, "        if idx > 0 and self.y_interpolants[idx].trange < 0 and self.t_eval[idx] > t:\n            idx = idx - 1\n        return idx", "        if self.y_interpolants[idx].trange < 0 and self.t_eval[idx] > t:\n            idx = idx - 1\n        return idx"))
V("C06-z-find-interval-vec-wrap", "C06", "C06.13", (DS, "            if idx > 0 and self.y_interpolants[idx].trange < 0 and self.t_eval[idx] > _t:\n                out[pos] = idx - 1", "            if self.y_interpolants[idx].trange < 0 and self.t_eval[idx] > _t:\n                out[pos] = idx - 1"))
V("C19-z-find-interval-guard-form-silent", "C19", "silent", (DS, "        if idx > 0 and self.y_interpolants[idx].trange < 0 and self.t_eval[idx] > t:\n            idx = idx - 1\n        return idx", "        if idx >= 1 and self.y_interpolants[idx].trange < 0 and self.t_eval[idx] > t:\n            idx -= 1\n        return idx"))
V("C20-u-break-before-callbacks", "C20", "C20.7", (DS, "                            self.integrate(roots[-1])\n                            self.__int_status = 2\n", "                            self.integrate(roots[-1])\n                            self.__int_status = 2\n                            break\n"))
# soundness of the attribute-alias front end: a STALE alias (read after the attribute was rebound) must not be expanded
V("C08-z-stale-counter-alias", "C08", "C08.3", (DS, "                self.__y[self.counter + 1] = self.__y[self.counter] + dState\n", "                __c = self.counter\n                self.__y[self.counter + 1] = self.__y[self.counter] + dState\n"),
  (DS, "                        next_time = self.__t[self.counter]\n", "                        next_time = self.__t[__c]\n"))
V("C08-z2-fresh-counter-alias-silent", "C08", "silent", (DS, "                        next_time = self.__t[self.counter]\n                        next_state = self.__y[self.counter]\n", "                        __c = self.counter\n                        next_time = self.__t[__c]\n                        next_state = self.__y[__c]\n"))
V("C03-v-stale-row-alias", "C03", "C03.2", (DS, "                self.__fix_dt_dir(tf, self.__t[self.counter])\n", "                self.__fix_dt_dir(tf, self.__t[self.counter])\n                __t_now = self.__t[self.counter - 1] if self.counter > 0 else self.__t[self.counter]\n"),
  (DS, "new_dt, (dTime, dState) = self.integrator(self.equ_rhs, self.__t[self.counter], self.__y[self.counter],\n", "new_dt, (dTime, dState) = self.integrator(self.equ_rhs, __t_now, self.__y[self.counter],\n"))

# ---- round 9 rules -------------------------------------------------------------------------------
V("C16-q-divide-after-loop", "C16", "C16.8", (UTL, "            jacobian_y[:, idx] = jacobian_y[:, idx] / dy_cur\n", "        jacobian_y = jacobian_y / dy\n"))
V("C16-q2-no-division", "C16", "C16.8", (UTL, "            jacobian_y[:, idx] = jacobian_y[:, idx] / dy_cur\n", "            pass\n"))
V("C16-q3-divide-twice", "C16", "C16.8", (UTL, "            jacobian_y[:, idx] = jacobian_y[:, idx] / dy_cur\n", "            jacobian_y[:, idx] = jacobian_y[:, idx] / dy_cur / dy_cur\n"))
V("C16-qs-divide-in-sum", "C16", "silent", (UTL, "                jacobian_y[:, idx] = jacobian_y[:, idx] + w * D.ar_numpy.reshape(\n                    self.rhs(D.ar_numpy.reshape(y_jac, D.ar_numpy.shape(y)), *args, **kwargs), (-1,))\n\n            jacobian_y[:, idx] = jacobian_y[:, idx] / dy_cur\n",
                                          "                jacobian_y[:, idx] = jacobian_y[:, idx] + (w / dy_cur) * D.ar_numpy.reshape(\n                    self.rhs(D.ar_numpy.reshape(y_jac, D.ar_numpy.shape(y)), *args, **kwargs), (-1,))\n"))
V("C16-qs-augassign", "C16", "silent", (UTL, "            jacobian_y[:, idx] = jacobian_y[:, idx] / dy_cur\n", "            jacobian_y[:, idx] /= dy_cur\n"))
V("C13-w-inplace-perturbation", "C13", "C13.8", (UTL, "                y_jac = unravelled_y + A * dy_cur * y_msk\n", "                unravelled_y[idx] = val + A * dy_cur\n                y_jac = unravelled_y\n"))
V("C13-w2-out-kwarg", "C13", "C13.8", (ITY, "        __aux_states = D.ar_numpy.reshape(next_state, self.stage_values.shape)\n", "        __aux_states = D.ar_numpy.reshape(next_state, self.stage_values.shape)\n        D.ar_numpy.multiply(next_state, 1.0, out=next_state)\n"), count=2)
V("C17-t-tolerant-shortcut", "C17", "C17.3", (INT, "        if t == 0.0:\n            return self.p0\n", "        if abs(t) <= 1e-12:\n            return self.p0\n"))
V("C17-t2-isclose-shortcut", "C17", "C17.3", (INT, "        if t_aff == 0.0:\n            return self.m0\n", "        if D.ar_numpy.isclose(t_aff, 0.0):\n            return self.m0\n"))
V("C03-w-float-target", "C03", "C03.11", (DS, "        if t is not None:\n            tf = t\n", "        if t is not None:\n            tf = float(t)\n"))
V("C03-w2-float64-target", "C03", "C03.11", (DS, "        if t is not None:\n            tf = t\n", "        if t is not None:\n            tf = D.ar_numpy.asarray(t, dtype='float64')\n"))
V("C03-ws-system-dtype-target", "C03", "silent", (DS, "        if t is not None:\n            tf = t\n", "        if t is not None:\n            tf = D.ar_numpy.asarray(t, **self.__array_con_kwargs)\n"))
V("C12-x-args0", "C12", "C12.10", (DS, "            new_e = etypes.FailedIntegration(\"Failed to integrate system\")\n", "            new_e = etypes.FailedIntegration(\"Failed to integrate system: {}\".format(e.args[0]))\n"))
V("C12-x2-message-attr", "C12", "C12.10", (DS, "            new_e = etypes.FailedIntegration(\"Failed to integrate system\")\n", "            new_e = etypes.FailedIntegration(\"Failed to integrate system: \" + e.message)\n"))
V("C12-xs-str-e", "C12", "silent", (DS, "            new_e = etypes.FailedIntegration(\"Failed to integrate system\")\n", "            new_e = etypes.FailedIntegration(\"Failed to integrate system: {}\".format(e))\n"))
V("C07-v-events-view-cached", "C07", "C07.9", (DS, "        return self.__events\n", "        self.__events_view = self.__events\n        return self.__events_view\n"))
V("C05-w-max-of-reciprocal", "C05", "C05.9", (TPL, "epsilon_current = D.ar_numpy.reciprocal(D.ar_numpy.linalg.norm(diff / total_error_tolerance))",
                                             "epsilon_current = D.ar_numpy.max(D.ar_numpy.reciprocal(D.ar_numpy.linalg.norm(D.ar_numpy.atleast_1d(diff / total_error_tolerance), axis=-1)))"))
V("C05-w2-min-of-errors", "C05", "C05.9", (TPL, "epsilon_current = D.ar_numpy.reciprocal(D.ar_numpy.linalg.norm(diff / total_error_tolerance))",
                                          "epsilon_current = D.ar_numpy.reciprocal(D.ar_numpy.min(D.ar_numpy.abs(diff / total_error_tolerance)))"))
V("C05-ws-max-norm", "C05", "silent", (TPL, "epsilon_current = D.ar_numpy.reciprocal(D.ar_numpy.linalg.norm(diff / total_error_tolerance))",
                                      "epsilon_current = D.ar_numpy.reciprocal(D.ar_numpy.max(D.ar_numpy.abs(diff / total_error_tolerance)))"))
V("C05-ws-min-of-row-reciprocals", "C05", "silent", (TPL, "epsilon_current = D.ar_numpy.reciprocal(D.ar_numpy.linalg.norm(diff / total_error_tolerance))",
                                                    "epsilon_current = D.ar_numpy.min(D.ar_numpy.reciprocal(D.ar_numpy.linalg.norm(D.ar_numpy.atleast_1d(diff / total_error_tolerance), axis=-1)))"))
V("C10-w-default-mask-one-row", "C10", "C10.8", (ITY, "            self.staggered_mask[staggered_mask] = 1\n", "            self.staggered_mask[sys_dim[0] // 2] = 1\n"))
V("C10-w2-default-mask-first-half", "C10", "C10.8", (ITY, "staggered_mask = D.ar_numpy.arange(sys_dim[0] // 2, sys_dim[0],", "staggered_mask = D.ar_numpy.arange(0, sys_dim[0] // 2,"))
V("C10-ws-default-mask-slice", "C10", "silent", (ITY, "            self.staggered_mask[staggered_mask] = 1\n", "            self.staggered_mask[sys_dim[0] // 2:] = True\n"))
V("C18-y-final-step-slack", "C18", "C18.9", (DS, "if not implicit_integration and D.ar_numpy.abs(self.dt) > D.ar_numpy.abs(tf - self.__t[self.counter]):",
                                            "if not implicit_integration and 1.01 * D.ar_numpy.abs(self.dt) > D.ar_numpy.abs(tf - self.__t[self.counter]):"))
V("C20-x-growth-clamp", "C20", "C20.8", (ITY, "        current_timestep = timestep\n        try:\n", "        current_timestep = timestep\n        if self.is_adaptive and self.final_time is not None:\n            current_timestep = D.ar_numpy.sign(timestep) * D.ar_numpy.minimum(D.ar_numpy.abs(timestep), 10 * D.ar_numpy.abs(self.dTime))\n        try:\n"))
V("C20-x2-damped-first-attempt", "C20", "C20.8", (ITY, "        current_timestep = timestep\n        try:\n", "        current_timestep = 0.9 * timestep\n        try:\n"))
V("C01-w-c0-stage-cached", "C01", "C01.8", (ITY, "        __rhs_states = D.ar_numpy.stack([\n            rhs(initial_time + tbl[0] * timestep,", "        __rhs_states = D.ar_numpy.stack([\n            self.initial_rhs if tbl[0] == 0.0 else\n            rhs(initial_time + tbl[0] * timestep,"))
V("C06-z-vec-table-cast", "C06", "C06.14", (UTL, "    array = D.ar_numpy.asarray(array)\n    i64_type", "    array = D.ar_numpy.asarray(array, dtype=val.dtype)\n    i64_type"))
V("C08-y-position-by-piece-direction", "C08", "C08.11", (DS, "                if (t - self.t_eval[-1]) < 0:\n", "                if y_interp.trange < 0:\n"))

# ---- round 10 rules ------------------------------------------------------------------------------
V("C05-x-scale-running-average", "C05", "C05.10", (TPL, "            self.solver_dict[\"system_scaling\"] = D.ar_numpy.maximum(D.ar_numpy.abs(initial_state), D.ar_numpy.abs(dState / timestep))\n",
  "            if \"system_scaling\" in self.solver_dict:\n                self.solver_dict[\"system_scaling\"] = 0.8 * self.solver_dict[\"system_scaling\"] + 0.2 * D.ar_numpy.maximum(D.ar_numpy.abs(initial_state), D.ar_numpy.abs(dState / timestep))\n            else:\n                self.solver_dict[\"system_scaling\"] = D.ar_numpy.maximum(D.ar_numpy.abs(initial_state), D.ar_numpy.abs(dState / timestep))\n"))
V("C19-y-iter-raw-buffers", "C19", "C19.3", (DS, "    def __len__(self):\n        return self.counter + 1\n", "    def __len__(self):\n        return self.counter + 1\n\n    def __iter__(self):\n        for t, y in zip(self.__t, self.__y):\n            yield StateTuple(t=t, y=y, event=None)\n"))
V("C19-ys-iter-views", "C19", "silent", (DS, "    def __len__(self):\n        return self.counter + 1\n", "    def __len__(self):\n        return self.counter + 1\n\n    def __iter__(self):\n        for t, y in zip(self.t, self.y):\n            yield StateTuple(t=t, y=y, event=None)\n"))
V("C20-y-facade-restores-dt", "C20", "C20.9", (DS, "            ode_system.integrate(t=t, **integration_options)\n            t_res.append(ode_system[-1].t)\n", "            __dt_prev = ode_system.dt\n            ode_system.integrate(t=t, **integration_options)\n            ode_system.dt = __dt_prev\n            t_res.append(ode_system[-1].t)\n"))
V("C18-z-teval-from-dense", "C18", "C18.10", (DS, "        y_res = D.ar_numpy.stack(y_res, axis=-1)\n", "        y_res = D.ar_numpy.stack(y_res, axis=-1)\n        if dense_output:\n            y_res = D.ar_numpy.moveaxis(ode_system.sol(t_eval), 0, -1)\n"))
V("C04-x-setter-clamps", "C04", "C04.8", (DS, "        self.__dt = D.ar_numpy.asarray(new_dt, **self.__array_con_kwargs)\n        self.__fix_dt_dir(self.tf, self.t0)\n        return self.__dt\n",
  "        self.__dt = D.ar_numpy.asarray(new_dt, **self.__array_con_kwargs)\n        if D.ar_numpy.abs(self.__dt) > D.ar_numpy.abs(self.tf - self.t0):\n            self.__dt = D.ar_numpy.abs(self.tf - self.t0) * 0.5\n        self.__fix_dt_dir(self.tf, self.t0)\n        return self.__dt\n"))
V("C04-x2-setter-halves", "C04", "C04.8", (DS, "        self.__dt = D.ar_numpy.asarray(new_dt, **self.__array_con_kwargs)\n        self.__fix_dt_dir(self.tf, self.t0)\n        return self.__dt\n",
  "        self.__dt = 0.5 * D.ar_numpy.asarray(new_dt, **self.__array_con_kwargs)\n        self.__fix_dt_dir(self.tf, self.t0)\n        return self.__dt\n"))
V("C14-y-vec-stops-on-short-step", "C14", "C14.2", (OPT, "conv = D.ar_numpy.logical_not(D.ar_numpy.logical_or(D.ar_numpy.logical_or(fb == 0, fs == 0), D.ar_numpy.abs(b - a) < tol))",
  "conv = D.ar_numpy.logical_not(D.ar_numpy.logical_or(D.ar_numpy.logical_or(fb == 0, fs == 0), D.ar_numpy.logical_or(D.ar_numpy.abs(s - b) < tol, D.ar_numpy.abs(b - a) < tol)))"))
V("C10-x-helper-getattr-none", "C10", "C10.6", (DS, "            if hasattr(self.integrator, \"staggered_mask\"):\n                return self.integrator.staggered_mask\n            return self.staggered_mask\n", "            return getattr(self.integrator, \"staggered_mask\", None)\n"))
V("C17-u-cube-of-interval", "C17", "C17.8", (INT, "        t3 = 3 * (t - self.tshift)/self.trange * (t - self.tshift)/self.trange * (1/self.trange)\n", "        t3 = 3 * (t - self.tshift)**2 / self.trange**3\n"))
V("C17-us-regrouped-degree-ok", "C17", "silent", (INT, "        t2 = 2 * (t - self.tshift)/self.trange * (1/self.trange)\n", "        t2 = 2 * ((t - self.tshift)/self.trange) / self.trange\n"))
V("C03-x-event-recommit-after-partial-realloc", "C03", "C03.12",
  (DS, "                            self.__t[self.counter + 1] = next_time\n                            self.__y[self.counter + 1] = next_state\n                            self.counter += 1\n", "                            self.counter += 1\n"),
  (DS, "                    self.__y = D.ar_numpy.concatenate(\n                        [self.__y, __new_allocs], axis=0)\n", "                    __new_y = D.ar_numpy.concatenate([self.__y[:self.counter + 1], __new_allocs, __new_allocs[:len(self.__y) - self.counter - 1]], axis=0)\n                    self.__y = __new_y\n"))
V("C03-xs-event-recommit-dropped-only", "C03", "silent",
  (DS, "                            self.__t[self.counter + 1] = next_time\n                            self.__y[self.counter + 1] = next_state\n                            self.counter += 1\n", "                            self.counter += 1\n"))
V("C12-y-temporary-setting-no-finally", "C12", "C12.11", (DS, "                            self.integrate(roots[-1])\n                            self.__int_status = 2\n",
  "                            self.integrator.is_adaptive = False\n                            self.integrate(roots[-1])\n                            self.integrator.is_adaptive = True\n                            self.__int_status = 2\n"))
V("C12-ys-temporary-setting-finally", "C12", "silent", (DS, "                            self.integrate(roots[-1])\n                            self.__int_status = 2\n",
  "                            self.integrator.is_adaptive = False\n                            try:\n                                self.integrate(roots[-1])\n                            finally:\n                                self.integrator.is_adaptive = True\n                            self.__int_status = 2\n"))
V("C11-y-warm-start-returned", "C11", "C11.7", (OPT, "    nfev = 1\n    njev = 0\n", "    nfev = 1\n    njev = 0\n    if D.ar_numpy.linalg.norm(D.ar_numpy.reshape(__f0, (fdim,))) < tol:\n        return x0, (True, 0, nfev, njev, D.ar_numpy.linalg.norm(D.ar_numpy.reshape(__f0, (fdim,))))\n"))
V("C09-y-stop-flag-cleared", "C09", "C09.8", (DS, "                        if end_int:\n                            for _ in range(len(self.__sol) - __pre_length):", "                        if end_int and self.__int_status == 2 and len(self.__events) > 3:\n                            end_int = False\n                        if end_int:\n                            for _ in range(len(self.__sol) - __pre_length):"))
V("C02-w-increment-wrong-axis", "C02", "C02.3", (ITY, "self.dState = timestep * D.ar_numpy.sum(self.stage_values * self.tableau_final[0, 1:], axis=-1)", "self.dState = timestep * D.ar_numpy.sum(self.stage_values * self.tableau_final[0, 1:], axis=0)"))
V("C02-ws-increment-matmul", "C02", "silent", (ITY, "self.dState = timestep * D.ar_numpy.sum(self.stage_values * self.tableau_final[0, 1:], axis=-1)", "self.dState = timestep * (self.stage_values @ self.tableau_final[0, 1:])"))
V("C02-w2-stage-system-transposed", "C02", "C02.2", (ITY, "            rhs(initial_time + tbl[0] * timestep,\n                initial_state + timestep * D.ar_numpy.sum(tbl[1:] * __aux_states, axis=-1), **constants)\n            for tbl in self.tableau_intermediate\n",
  "            rhs(initial_time + tbl[0] * timestep, initial_state + __d, **constants)\n            for tbl, __d in zip(self.tableau_intermediate, (timestep * (__aux_states @ self.tableau_intermediate[:, 1:].T)).T)\n"))
V("C02-w2s-stage-system-moveaxis", "C02", "silent", (ITY, "            rhs(initial_time + tbl[0] * timestep,\n                initial_state + timestep * D.ar_numpy.sum(tbl[1:] * __aux_states, axis=-1), **constants)\n            for tbl in self.tableau_intermediate\n",
  "            rhs(initial_time + tbl[0] * timestep, initial_state + __d, **constants)\n            for tbl, __d in zip(self.tableau_intermediate, D.ar_numpy.moveaxis(timestep * (__aux_states @ self.tableau_intermediate[:, 1:].T), -1, 0))\n"))

# ---- round 11 rules ------------------------------------------------------------------------------
BKN = "desolver/backend/numpy_backend.py"
V("C14-z-fc-aliases-fa", "C14", "C14.10", (OPT, "    fc = _f(c)\n    fs = D.ar_numpy.copy(fc)\n", "    fc = fa\n    fs = D.ar_numpy.copy(fc)\n"))
V("C14-zs-fc-copy-of-fa", "C14", "silent", (OPT, "    fc = _f(c)\n    fs = D.ar_numpy.copy(fc)\n", "    fc = D.ar_numpy.copy(fa)\n    fs = D.ar_numpy.copy(fc)\n"))
V("C04-y-setter-moves-baseline", "C04", "C04.8", (DS, "        self.__dt = D.ar_numpy.asarray(new_dt, **self.__array_con_kwargs)\n        self.__fix_dt_dir(self.tf, self.t0)\n        return self.__dt\n",
  "        self.__dt = D.ar_numpy.asarray(new_dt, **self.__array_con_kwargs)\n        self.__dt0 = self.__dt\n        self.__fix_dt_dir(self.tf, self.t0)\n        return self.__dt\n"))
V("C12-z-reset-early-return", "C12", "C12.12", (DS, "    def reset(self):\n", "    def reset(self):\n        if self.counter == 0:\n            return\n"), count=1)
V("C06-y-lookup-sample-window", "C06", "C06.15", (DS, "                return StateTuple(t=index, y=self.sol(index), event=None)\n",
  "                if D.ar_numpy.abs(self.t[-1] - index) <= D.tol_epsilon(self.__y[0].dtype):\n                    return StateTuple(t=self.t[-1], y=self.y[-1], event=None)\n                return StateTuple(t=index, y=self.sol(index), event=None)\n"))
V("C19-z-batch-splice", "C19", "C19.10", (DS, "            for idx in range(len(t)):\n                self.add_interpolant(t[idx], y_interp[idx])\n",
  "            if self.t_eval is not None and len(self.t_eval) > 0 and (t[-1] - self.t_eval[-1]) < 0:\n                self.t_eval[:0] = [D.ar_numpy.asarray(_t) for _t in t]\n                self.y_interpolants[:0] = y_interp\n                self.__t_eval_arr_stale = True\n            else:\n                for idx in range(len(t)):\n                    self.add_interpolant(t[idx], y_interp[idx])\n"))
V("C20-z-init-integrator-stores-dt", "C20", "C20.10", (DS, "    def initialise_integrator(self, preserve_states=False):\n", "    def initialise_integrator(self, preserve_states=False):\n        if not preserve_states:\n            self.dt = self.__dt0\n"))
V("C15-y-lstsq-on-failure", "C15", "C15.8", (BKN, "        return scipy.linalg.solve(A,b,overwrite_a=overwrite_a,overwrite_b=overwrite_b,check_finite=check_finite)\n",
  "        try:\n            return scipy.linalg.solve(A,b,overwrite_a=overwrite_a,overwrite_b=overwrite_b,check_finite=check_finite)\n        except numpy.linalg.LinAlgError:\n            return scipy.linalg.lstsq(A,b,check_finite=check_finite)[0]\n"))
V("C10-y-set-method-early-return", "C10", "C10.9", (DS, "        self.initialise_integrator(preserve_states=preserve_states)\n\n    def get_step_interpolant", "        if preserve_states and type(self.integrator) is self.__method:\n            return\n        self.initialise_integrator(preserve_states=preserve_states)\n\n    def get_step_interpolant"))
V("C02-x-integrator-bound-before-loop", "C02", "C02.8",
  (DS, "        end_int = False\n        self.__allocate_soln_space(total_steps)\n", "        end_int = False\n        self.__allocate_soln_space(total_steps)\n        take_step = self.integrator\n"),
  (DS, "new_dt, (dTime, dState) = self.integrator(self.equ_rhs,", "new_dt, (dTime, dState) = take_step(self.equ_rhs,"))
V("C11-z-instance-table-sliced", "C11", "C11.8", (ITY, "        self.tableau_final = D.ar_numpy.asarray(self.__class__.tableau_final, **self.array_constructor_kwargs)\n",
  "        self.tableau_final = D.ar_numpy.asarray(self.__class__.tableau_final, **self.array_constructor_kwargs)\n        if not self.__class__.tableau_final.shape[0] == 2:\n            self.tableau_final = self.tableau_final[-1:]\n"))
V("C08-z-wide-probe-removed", "C08", "C08.5",
  (DS, "    g = [ev_f[idx](t_root - (t_next - t_prev) * D.epsilon(roots[0].dtype) ** 0.5) for idx, t_root in enumerate(roots)]\n", "    g = [ev_f[idx](t_root - (t_next - t_prev) * D.epsilon(roots[0].dtype) ** 0.75) for idx, t_root in enumerate(roots)]\n"),
  (DS, "    g_new = [ev_f[idx](t_root + (t_next - t_prev) * D.epsilon(roots[0].dtype) ** 0.5) for idx, t_root in enumerate(roots)]\n", "    g_new = [ev_f[idx](t_root + (t_next - t_prev) * D.epsilon(roots[0].dtype) ** 0.75) for idx, t_root in enumerate(roots)]\n"))
V("C17-v-constructor-keeps-references", "C17", "C17.9", (INT, "        self.p0 = D.ar_numpy.copy(p0)\n", "        self.p0 = D.ar_numpy.asarray(p0)\n"))
V("C09-z-event-attributes-memoised", "C09", "C09.9", (DS, "def prepare_events(events, backend_like):\n", "import functools\n\n\n@functools.lru_cache(maxsize=8)\ndef _terminal_flags(events):\n    return tuple(bool(getattr(ev, \"is_terminal\", False)) for ev in events)\n\n\ndef prepare_events(events, backend_like):\n"))

# ---- round 12 rules ------------------------------------------------------------------------------
V("C18-w-callbacks-not-copied", "C18", "C18.12", (DS, "    callbacks = list(options.get(\"callbacks\", []))\n", "    callbacks = options.get(\"callbacks\", [])\n"))
V("C18-ws-callbacks-copied-otherwise", "C18", "silent", (DS, "    callbacks = list(options.get(\"callbacks\", []))\n", "    callbacks = [cb for cb in options.get(\"callbacks\", [])]\n"))
V("C15-x-fd-jacobian-cache-without-args", "C15", "C15.9",
  (OPT, "def nonlinear_roots(f, x0,", "_jac_cache = dict()\n\n\ndef nonlinear_roots(f, x0,"),
  (OPT, "    nfev = 1\n    njev = 0\n", "    nfev = 1\n    njev = 0\n    if f in _jac_cache:\n        jac = _jac_cache[f]\n    _jac_cache[f] = jac\n"))
V("C10-z-mask-aliased", "C10", "C10.7", (ITY, "self.staggered_mask = D.ar_numpy.astype(D.ar_numpy.asarray(staggered_mask, like=self.tableau_intermediate), D.autoray.to_backend_dtype('bool', like=self.tableau_intermediate))",
                                       "self.staggered_mask = D.ar_numpy.asarray(staggered_mask, dtype=D.autoray.to_backend_dtype('bool', like=self.tableau_intermediate), like=self.tableau_intermediate)"))
V("C05-y-atol-accumulated-in-place", "C05", "C05.12", (TPL, "            total_error_tolerance = (atol + rtol * self.solver_dict[\"system_scaling\"])\n", "            total_error_tolerance = atol\n            total_error_tolerance += rtol * self.solver_dict[\"system_scaling\"]\n"))
V("C12-w-richardson-dt-in-place", "C12", "C12.13", (ITY, "next_timestep = D.ar_numpy.copy(dt0)", "next_timestep = dt0"))
V("C01-x-stage-clock-aliases-time", "C01", "C01.12",
  (ITY, "        current_time = D.ar_numpy.copy(initial_time)\n", "        current_time = D.ar_numpy.asarray(initial_time)\n"),
  (ITY, "            current_time = current_time + timestep * self.tableau_intermediate[stage, 1]\n", "            current_time += timestep * self.tableau_intermediate[stage, 1]\n"))
V("C04-z-dt-written-in-place", "C04", "C04.8", (DS, "        self.__dt = D.ar_numpy.asarray(new_dt, **self.__array_con_kwargs)\n        self.__fix_dt_dir(self.tf, self.t0)\n        return self.__dt\n",
  "        self.__dt[...] = new_dt\n        self.__fix_dt_dir(self.tf, self.t0)\n        return self.__dt\n"))
V("C04-z2-orientation-in-place", "C04", "C04.9", (DS, "            self.__dt = -self.__dt\n", "            self.__dt *= -1\n"))
V("C03-y-trim-dropped", "C03", "C03.14", (DS, "            self.__trim_soln_space()\n", "            pass\n"))
V("C07-w-wrapper-memoised-in-default-dict", "C07", "C07.12", (DS, "def prepare_events(events, backend_like):\n", "def _event_wrapper(ev, sol, consts, _memo={}):\n    if ev not in _memo:\n        _memo[ev] = lambda t: ev(t, sol(t), **consts)\n    return _memo[ev]\n\n\ndef prepare_events(events, backend_like):\n"))
V("C02-y-stage-storage-pooled", "C02", "C02.9", (ITY, "        self.stage_values = D.ar_numpy.zeros((*self.dim, self.stages), **self.array_constructor_kwargs)\n", "        self.stage_values = _STAGE_POOL.setdefault((tuple(self.dim), self.stages), D.ar_numpy.zeros((*self.dim, self.stages), **self.array_constructor_kwargs))\n"),
  (ITY, "class RungeKuttaIntegrator(TableauIntegrator, abc.ABC):\n", "_STAGE_POOL = {}\n\n\nclass RungeKuttaIntegrator(TableauIntegrator, abc.ABC):\n"))
