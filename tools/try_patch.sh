#!/bin/bash
# development aid: run checks against an arbitrary patch applied to a scratch copy (never touches /repo):  try_patch.sh <patch.diff> [Cxx ...]
cd "$(dirname "$0")/.."; pf=$(realpath $1); shift
/venv/bin/python - "$pf" "$@" <<'P'
import sys, shutil
sys.path.insert(0, "/verif"); sys.dont_write_bytecode = True
from tools import seeded_par
tmp, err = seeded_par.scratch_with_patch(sys.argv[1])
if tmp is None:
    print(err); sys.exit(2)
props = sys.argv[2:] or seeded_par.PROPS
try:
    fired = seeded_par.run_props(tmp, props)
finally:
    shutil.rmtree(tmp, ignore_errors=True)
for p, r in fired.items():
    for ln in r["lines"]:
        print(p, "rc=%d" % r["rc"], ln[:420])
if not fired:
    print("silent:", " ".join(props))
P
