#!/venv/bin/python
"""Parallel re-check of every kept seeded change (/verif/seeded/<name>/patch.diff) WITHOUT touching /repo:
each patch is applied to a scratch copy of /repo's HEAD (git archive, under a fresh temporary directory, removed afterwards) and the twenty
quick checks are run in-process against that copy, with evidence/replay output redirected into the scratch directory.
Same verdict columns as tools/seeded_run.py (which applies to /repo itself and is kept as the by-the-book reference).
usage: seeded_par.py [name-substring ...] [-j N] [--update]     (--update rewrites meta.json's checks_fired / detected fields)"""
import concurrent.futures as cf
import contextlib
import importlib
import io
import json
import os
import shutil
import subprocess
import sys
import tempfile

VERIF = os.path.dirname(os.path.dirname(os.path.abspath(__file__)))
sys.path.insert(0, VERIF)
sys.dont_write_bytecode = True
PROPS = ["C%02d" % i for i in range(1, 21)]


def scratch_with_patch(patch):
    tmp = tempfile.mkdtemp(prefix="sa_seed_")
    p = subprocess.run("git -C /repo archive HEAD desolver | tar -x -C %s" % tmp, shell=True, stdout=subprocess.PIPE, stderr=subprocess.STDOUT, text=True)
    if p.returncode:
        shutil.rmtree(tmp, ignore_errors=True)
        return None, "archive failed: " + p.stdout
    if patch:
        p = subprocess.run(["patch", "-p1", "-s", "-d", tmp, "-i", patch], stdout=subprocess.PIPE, stderr=subprocess.STDOUT, text=True)
        if p.returncode:
            shutil.rmtree(tmp, ignore_errors=True)
            return None, "patch does not apply: " + p.stdout[:300]
    return tmp, ""


def run_props(root, props=PROPS):
    from sa.front import Repo, AnalysisError
    from sa.report import Run
    from sa import report as rep
    fired = {}
    out_dir = os.path.join(root, "_out")
    os.makedirs(out_dir, exist_ok=True)
    old = rep.VERIF
    rep.VERIF = out_dir
    try:
        for prop in props:
            mod = importlib.import_module("sa.rules.%s" % prop.lower())
            buf = io.StringIO()
            with contextlib.redirect_stdout(buf), contextlib.redirect_stderr(buf):
                try:
                    repo = Repo(root)
                    run = Run(prop, "quick", getattr(mod, "LEVEL", "other"), 0)
                    from sa.report import run_rules
                    rc = run_rules(mod, repo, run, "quick")
                except AnalysisError as e:
                    rc = 2
                    print("ANALYSIS-ERROR %s" % e)
                except Exception as e:
                    rc = 2
                    print("ANALYSIS-ERROR internal %r" % (e,))
            txt = buf.getvalue()
            if rc != 0:
                lines = [ln for ln in txt.splitlines() if (" rule " in ln and "KNOWN-FINDING" not in ln) or "ANALYSIS-ERROR" in ln]
                rules = sorted({ln.split(" rule ")[1].split(":")[0] for ln in lines if " rule " in ln})
                fired[prop] = dict(rc=rc, rules=rules, lines=[ln[:300] for ln in lines][:4])
    finally:
        rep.VERIF = old
    return fired


def one(name):
    d = os.path.join(VERIF, "seeded", name)
    meta = json.load(open(os.path.join(d, "meta.json")))
    tmp, err = scratch_with_patch(os.path.join(d, "patch.diff"))
    if tmp is None:
        return name, meta["property"], None, err
    try:
        fired = run_props(tmp)
    finally:
        shutil.rmtree(tmp, ignore_errors=True)
    return name, meta["property"], fired, ""


def main():
    args = [a for a in sys.argv[1:]]
    jobs = 16
    update = False
    flt = []
    i = 0
    while i < len(args):
        if args[i] == "-j":
            jobs = int(args[i + 1]); i += 2; continue
        if args[i] == "--update":
            update = True; i += 1; continue
        flt.append(args[i]); i += 1
    names = [n for n in sorted(os.listdir(os.path.join(VERIF, "seeded")))
             if os.path.exists(os.path.join(VERIF, "seeded", n, "patch.diff")) and (not flt or any(f in n for f in flt))]
    rows = []
    with cf.ProcessPoolExecutor(max_workers=jobs) as ex:
        for name, prop, fired, err in ex.map(one, names):
            if fired is None:
                rows.append((name, prop, "PATCH DOES NOT APPLY", err[:100]))
                continue
            own = prop in fired and fired[prop]["rc"] == 1
            det = any(r["rc"] == 1 for r in fired.values())
            errs = [p for p, r in fired.items() if r["rc"] == 2]
            rows.append((name, prop, "own" if own else ("other" if det else "MISSED"),
                         " ".join("%s:%s" % (p, ",".join(r["rules"]) or "rc%d" % r["rc"]) for p, r in fired.items()) + (" EXIT2:" + ",".join(errs) if errs else "")))
            if update:
                mp = os.path.join(VERIF, "seeded", name, "meta.json")
                meta = json.load(open(mp))
                meta["checks_fired"] = fired
                meta["detected"] = det
                meta["detected_by_own_property"] = own
                meta["checked_at_repo_head"] = subprocess.run("git -C /repo rev-parse --short HEAD", shell=True, stdout=subprocess.PIPE, text=True).stdout.strip()
                json.dump(meta, open(mp, "w"), indent=1)
    for r in rows:
        print("%-44s %-4s %-7s %s" % r)
    missed = [r for r in rows if r[2] in ("MISSED", "PATCH DOES NOT APPLY")]
    print("%d seeded changes, %d detected by the check of their own property, %d detected only by another property's check, %d missed" % (
        len(rows), sum(1 for r in rows if r[2] == "own"), sum(1 for r in rows if r[2] == "other"), len(missed)))
    sys.exit(1 if missed or any(r[2] == "other" for r in rows) else 0)


if __name__ == "__main__":
    main()
