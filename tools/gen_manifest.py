#!/venv/bin/python
"""Regenerates /verif/MANIFEST.json from the table below (kept in one place so that the manifest,
the not_applicable list and the rules that exist cannot drift apart)."""
import json
import os

HERE = os.path.dirname(os.path.dirname(os.path.abspath(__file__)))

NOTE = ("trusted base: CPython's ast module and the analyser in /verif/sa; the check reads /repo's working tree on every run, "
        "imports nothing from it and executes none of it; a construct is reported only on definite facts (resolved anchors, "
        "folded constants, definite kinds); numeric/behavioural clauses listed as 'not decided' in DESIGN.md section 4 are outside the claim")

CLAIMS = {
    "C01": dict(
        category="other", design="DESIGN.md 4/C01",
        technique="constant folding of table literals + exact rooted-tree order conditions, B/C/D simplifying assumptions, "
                  "free-algebra (BCH) words, abstract interpretation of the Neville tableau over error expansions",
        text="Decides the table clause of C01 exactly: every shipped table (32, read from the shipped lists) is folded from the "
             "source literals and the order conditions for ALL rooted trees up to the declared order (53 272 for RK1412; order 19 "
             "via B(19),C,D) are evaluated in exact dyadic arithmetic with a 1e-10 residual bound; estimator weights (read from "
             "get_error_estimate) must be consistent; splitting schemes are checked word by word against exp(h(A+B)); the "
             "Richardson tableau code is interpreted over symbolic error expansions for every shipped base order and 2..5 levels, sub-steps are "
             "N equal parts chained from the accumulated state, `base.is_adaptive = False` really switches the base's adaptation off, and the generic stage loop "
             "evaluates EVERY stage of the table (none skipped or carried over from another call). "
             "For the 30 tables without an open finding this is a proof of the algebraic conditions that are necessary and sufficient for "
             "the declared local order of the map the tables define (that step() evaluates that map is C02's clause; nothing is integrated). "
             "The level is 'other', not 'proof', because two obligations are undischarged known findings (the declared orders of the two "
             "high-order splitting schemes), so the property as a whole is not proved."),
    "C10": dict(
        category="proof", design="DESIGN.md 4/C10",
        technique="constant folding + exact symplecticity matrix / symmetry / palindrome identities; AST shape of the drift-kick update",
        text="For every shipped class flagged symplectic: RK tables satisfy b_i a_ij + b_j a_ji = b_i b_j (<=1e-13) and the symmetry "
             "relations; splitting tables have exclusive drift/kick rows summing to one in a palindromic sequence; the step code "
             "applies each row as a shear evaluated at the running partial state with complementary masks; for the implicit symplectic tables 'accepted' implies "
             "'stage equations solved' (acceptance typestate of C02.4 re-judged); a kick mask given by the user reaches the splitting integrator (no @property read "
             "through the class object, every desolver.backend name used by the mask code exists -- namespace resolved through the star imports; the mask survives a change of method; on the user-mask path the integrator's mask is an elementwise "
             "conversion of the argument). By the cited theorems "
             "this proves symplecticity/reversibility of the exact-arithmetic map for separable Hamiltonians; rounding-level and "
             "long-run energy behaviour are not decided."),
    "C11": dict(
        category="proof", design="DESIGN.md 4/C11",
        technique="constant folding + exact stability polynomials (Faddeev-LeVerrier), Sturm sequence on the E-polynomial, Routh-Hurwitz on the poles",
        text="For each of the 16 shipped implicit tables the stability function R=P/Q is computed exactly from the folded "
             "coefficients; (1+1e-9)|Q(iy)|^2-|P(iy)|^2 is shown to have no real root (Sturm) and Q to have all roots in Re z>0 "
             "(Routh), i.e. A-stability by the maximum-modulus principle, for ALL z in the closed left half-plane rather than a "
             "sample; the lists of implicit/explicit methods contain tables of that kind; 'accepted' implies 'stage equations solved' (the acceptance "
             "typestate of C02.4 is re-judged). That the computed step equals the scheme's map is C02's clause."),
}

CLAIMS["C02"] = dict(
    category="other", design="DESIGN.md 4/C02",
    technique="abstract interpretation of stage formulas over tensors with concrete stage axes and abstract state axes (E-EIN); AST rules: table-subscript layout classification, polynomial normal forms of stage formulas against templates, "
              "truth tables, typestate abstract interpretation of the retry loop over the structured control flow",
    text="Decides the structural clause of C02, not the numbers: every reader of a coefficient table uses the [c | A] / [. | b] layout "
         "the tables are written in; the stage time/state arguments of compute_step, algebraic_system and the high-precision Jacobian "
         "branch equal t0 + h c_i and y0 + h sum_j a_ij k_j as polynomial normal forms; the propagated increment is h sum b_i k_i of the "
         "solved stages (FSAL shortcut only for explicit FSAL tables); the stage loop runs over all stages; the stored Newton flag implies solver success AND residual < tol; "
         "and on every path of RungeKuttaIntegrator.__call__ (all abstract states, fixpoint over the retry loop, exceptional edges) no "
         "return is reachable for an implicit method whose last stage solve failed. Each is a necessary condition: breaking it changes the "
         "computed map. Equality 'to rounding / to solver tolerance' of returned values is not decided.")
CLAIMS["C17"] = dict(
    category="proof", design="DESIGN.md 4/C17",
    technique="polynomial normal forms (Hermite end conditions, derivative identity); dimensional analysis of intermediates (scale discipline); abstract interpretation of the bisection body over order types",
    text="Hermite: the value expression of CubicHermiteInterp is normalised to a polynomial in tau and shown to be the unique cubic with "
         "H(0)=p0, H(1)=p1, H'(0)=trange*m0, H'(1)=trange*m1 (so every cubic is reproduced, for either interval orientation), grad is shown "
         "identical to d/dt of that polynomial, the early-return shortcuts equal the polynomial at tau=0,1, and the constructor slots are "
         "bound positionally. Bisection: search_bisection is comparison-only, so its behaviour depends only on the order type of the query "
         "relative to the array; its body is interpreted over ALL order types for array lengths 1..8 (quick) / 1..24 (thorough) against "
         "the specification min(first index with element >= query, n-1); search_bisection_vec is interpreted the same way with a small model of the "
         "elementwise numpy operations it uses (n <= 6 / 16) and must not convert its operands to another dtype. Rounding is not modelled.")

CLAIMS["C03"] = dict(
    category="other", design="DESIGN.md 4/C03",
    technique="quantity-kind (affine/direction) type checking of time arithmetic; flow analysis of the commit (rows written before the counter advances, allocator summary); def-use and polynomial normal forms of the commit; "
              "dominance of capacity tests; abstract interpretation of dt orientation over the structured control flow",
    text="Decides the structural clause of C03 for every span, direction and history at once: (1) the time arithmetic of integrate(), "
         "__fix_dt_dir, __alloc_space_steps and the dt/t0/tf setters is well-kinded (no abs/sign/scaling of absolute times, no ordering of "
         "signed steps outside a direction guard), which is the necessary condition for translation/reflection invariance; (2) each loop "
         "iteration calls the integrator at the last committed row with a step in {dt, tf - t}, writes rows counter+1 = row + that call's own "
         "increments before advancing the counter with no user-code call in between, clamps exactly when |dt| > |tf - t|, loops while |tf - t| >= eps; "
         "(3) a capacity test dominates every row write; (4) only row counter+1 is ever stored and buffers keep y0's dtype; (5) on every path the "
         "signed step handed to the integrator was oriented toward THIS call's target; (6) with events the rolled-back row is re-committed from the saved committed row; "
         "(7) the step loop can be left only through its distance test or the event handler's terminal flag (no other rebinding of the names its test reads, no other break). Not decided: finiteness of values, rounding-level closeness to tf.")
CLAIMS["C04"] = dict(
    category="other", design="DESIGN.md 4/C04",
    technique="quantity-kind (direction/unit) type checking of the integrators' step arithmetic; provenance abstract interpretation of the returned step; def-use rules",
    text="Decides: the step-size arithmetic of RungeKuttaIntegrator.__call__/step, the splitting integrator, update_timestep, the implicit-aware "
         "controller and the Richardson wrapper is direction-symmetric (no min/max/ordering/log of signed steps); on every path of __call__ a "
         "non-adaptive explicit method hands back exactly the step it was given and an implicit one at most shrinks it after a failed stage solve "
         "(provenance lattice INPUT/SHRUNK/CONTROLLER); dTime records the requested step; integrate() overwrites dt only with the integrator's "
         "proposal and only when the step was not the clamped last one; the clamp is taken exactly when |dt| > |tf - t| (path condition by truth table); before the "
         "loop the requested step is overwritten only under that same magnitude comparison."
         " The rounding/tolerance-level shift/reflection relation of computed states is "
         "not decided; well-kindedness is its necessary condition.")
CLAIMS["C05"] = dict(
    category="other", design="DESIGN.md 4/C05",
    technique="typestate abstract interpretation of the retry loop (fixpoint over abstract states, exceptional edges); normal forms and folded constants of the controller; abstract interpretation of the error measure over (sense, coverage); dataflow of the tolerance scale",
    text="Decides only the second sentence of C05: on every path of RungeKuttaIntegrator.__call__ a step whose redo flag is set is never returned "
         "(it is retried inside a bounded loop or FailedToMeetTolerances is raised); the retried step is the controller's proposal bounded in magnitude by "
         "the requested step; update_timestep returns (corr*h, corr<c) with one corr and constant c<1 and the implicit-aware limiter cannot undo the "
         "shrink (c*(1+0.1*pi/2)<1); the error fed to the controller is h*sum(b-b_hat)k; the Richardson wrapper retries a rejected step by a recursive call with the controller's "
         "proposal (or a halved step) and overrides the redo flag only in its symplectic step-doubling branch. NOT decided (not applicable to static analysis): that the "
         "global error is proportional to the tolerances.")

CLAIMS["C06"] = dict(
    category="other", design="DESIGN.md 4/C06",
    technique="argument-slot agreement by polynomial normal forms; dependence rule (piece index must depend on a direction indicator); cache-key discipline; "
              "paired/sorted container rules; balance abstract interpretation of integrate() incl. exceptional edges",
    text="Decides the structural clauses of C06: each Hermite piece is built from (t0, t0+dTime, y0, y0+dState, f(t0,y0), f(t1,y1)) of its own step in the slots "
         "the class expects; the end slopes are the right-hand side at the step ends in both integrator families; the piece chosen for a query depends on the "
         "direction of the stored steps (necessary by an information argument: t_eval alone cannot tell which neighbour contains t); a cached end slope is reused "
         "only under a comparison with the time AND state it was computed at and the splitting integrators recompute it every call; t_eval/y_interpolants are "
         "updated in lock-step; on every path of integrate(), including exceptional exits and the terminal-event path, pieces added = steps committed, and the pieces removed on the "
         "terminal path come from the end they were added to; scalar and array queries pair each query with the piece computed for it. "
         "A front insertion decided by comparison with the LAST element is a recorded known finding (direction reversal). Not decided: O(h^4) interpolation error.")
CLAIMS["C07"] = dict(
    category="other", design="DESIGN.md 4/C07",
    technique="def-use of the event record; index-sort (IDX) typing of last_occurrence; exhaustive truth tables of the classification and direction mask; quantity kinds of the ordering key",
    text="Decides: the record of an event is (root, dense solution at that root, the event of that root) from one zip iteration and is appended only after the "
         "in-step test; the duplicate-suppression table is indexed by EVENT index (positions among active events are mapped through active_events); up/down over "
         "all 27 sign patterns of the three samples and the direction mask over (up, down, direction in {-1,0,1}) equal their specifications and imply the root "
         "finder's success; events are ordered by sign(dt)*t; the in-step test is the mirrored pair selected by the sign of the step; each event's own is_terminal/direction attributes "
         "are bound to its index and the samples around a root are offset by signed durations along the step; the recorded-events list is never indexed with a "
         "last_occurrence entry that can still be the sentinel -1 (path conditions with short-circuit and guard clauses). Not decided: g(t_e,y_e)~0 and "
         "closeness to a true root.")
CLAIMS["C08"] = dict(
    category="other", design="DESIGN.md 4/C08",
    technique="unit (DIM) kind checking of the vectorised Brent solver; ordering/dominance and def-use rules of the event search in integrate()/handle_events",
    text="Decides: whether the root search reports success is invariant under rescaling of the event function (no function value is ordered against an abscissa "
         "tolerance); the bracket handed to the root finder is (start, end) of the step just committed, read after the commit and before the rollback; a search "
         "function is built for every event and evaluated at (t, sol(t)); the interpolant of the step is in the solution before the search and pruning happens only "
         "after it; the samples that classify a crossing as rising/falling lie before/after the root ALONG the step (signed offsets); the vectorised root search decides sign relations from signs, not from products that underflow; the roots are ordered by sign(dt)*t before the only operation that discards crossings (truncation after the first terminal event). The design's 'keep the most recent pieces in either direction' clause was withdrawn as a false alarm (see DESIGN.md). Not decided: convergence "
         "of Brent's iteration on a given steep function.")
CLAIMS["C09"] = dict(
    category="other", design="DESIGN.md 4/C09",
    technique="ordering/dominance rules on handle_events; protocol rules on the terminal branch; balance abstract interpretation (fixpoint over the step loop, recursion by induction)",
    text="Decides: ordering along the direction of integration precedes the terminal truncation, which keeps [: first terminal + 1] of the three parallel arrays; on "
         "a terminal event integrate() has rolled the step back, re-integrates to the LAST kept root with neither events nor callbacks, sets status 2 after the "
         "recursive call, leaves the loop and writes no row afterwards; the pieces of the rolled-back step are removed from the end they were added to; at the end of every iteration, on the terminal path in particular, interpolant pieces "
         "added = counter advance; the duplicate filter cannot suppress a first occurrence (the terminal event) through the sentinel entry. Not decided: that the last state lies on the event surface (numeric).")
CLAIMS["C12"] = dict(
    category="other", design="DESIGN.md 4/C12",
    technique="handler-discipline rules on the try statement; lexical containment of user-reaching calls; balance abstract interpretation with exceptional edges from every such call",
    text="Decides for every crash point that is a call reaching user code (integrator, event functions, callbacks, recursive integrate): the call lies inside the "
         "try; a KeyboardInterrupt handler, not shadowed by a broader one, records and re-raises the interrupt; an Exception handler raises FailedIntegration whose "
         "__cause__ is the original; rows are written only after the integrator returned with nothing raising between the writes and the counter increment; at each "
         "exceptional exit pieces added = counter advance; a cached end slope is reused only for the point it was computed at (so a failure cannot leave a stale one); "
         "finally trims both buffers to counter+1; an implicit step whose stage solve failed is never returned to integrate() (it ends in FailedToMeetTolerances). Asynchronous interrupts between bytecodes and the numerical "
         "correctness of a resumed run are not decided.")
CLAIMS["C13"] = dict(
    category="other", design="DESIGN.md 4/C13",
    technique="transitive attribute write sets over the class call graph (setters included): def/kill completeness integrate vs reset; expression agreement with the constructor; aliasing and dominance rules",
    text="Decides: every attribute written by anything reachable from integrate() is re-initialised by something reachable from reset() (named exemption: njev), "
         "with the constructor's value or the saved initial step, the integrator is rebuilt without preserved state and the counter is zeroed before trimming; y0 "
         "enters stored state only through a copy, the caller's DiffRHS wrapper is copied rather than aliased, and library code never writes the constants dict; an early return for a call made at the target precedes every "
         "state write. Bit-for-bit reproduction itself and 'within tolerance however the span is split' are not decided.")
CLAIMS["C14"] = dict(
    category="other", design="DESIGN.md 4/C14",
    technique="unit (DIM) kind checking; exhaustive truth tables of the bisection predicate extracted by sequential symbolic evaluation; scalar/vector agreement of boolean functions",
    text="Decides: in both Brent solvers no function value is ordered against an abscissa tolerance or a pure number other than zero (success is scale-free); the "
         "safeguard 'interpolated point outside ((3a+b)/4, b) => bisect' is a tautology of the extracted predicate in both; the scalar and the vectorised solver "
         "compute the same boolean function of the same arithmetic atoms and stop on the same tests; both loops are capped by a counter; over sign(f(a)f(b)) in {-,0,+} "
         "the scalar solver rejects exactly '+', returns `product <= 0` as success, and the vector success is implied by an exact zero at the end point; "
         "the bracket update is interpreted over all sign patterns (f(a), f(b), f(s)): the sign change is kept, the new point becomes an end, abscissae stay paired with their values; "
         "sign relations of two function values are decided from their signs, never from a floating-point product that underflows to zero."
         " Not decided: that the "
         "returned point is within the tolerance of a sign change.")
CLAIMS["C15"] = dict(
    category="other", design="DESIGN.md 4/C15",
    technique="truth tables over the atoms of the success expressions (sequential symbolic evaluation), atoms classified by quantity kind (residual vs step); slot-kind agreement of return sites; shape dataflow",
    text="Decides: for hybrj, newtontrustregion and nonlinear_roots whether the value returned in the success slot can be true while every residual test (and the "
         "external MINPACK flag) is false; that all return sites of nonlinear_roots put the residual norm in the slot the implicit integrator compares with its "
         "tolerance; that the root is reshaped to the initial guess's shape on every return path (a solver result passed through must come from a call given x0 itself); that a trial point is accepted only under a positively established progress "
         "test (NaN-safe); that the step norm read by the success expression is recomputed in every iteration. The step-size success tests of hybrj/newtontrustregion are "
         "recorded known findings. Not decided: the 'modest multiple' constant.")
CLAIMS["C16"] = dict(
    category="other", design="DESIGN.md 4/C16",
    technique="predicate abstraction of DiffRHS's Jacobian cache with exhaustive exploration of abstract states under all method sequences; cache-key discipline; argument agreement; index/layout rules; abstract interpretation of the finite-difference loop over Laurent polynomials",
    text="Decides: over the abstraction (initialised, cached Jacobian kind, wrapped) and EVERY sequence of jac / hook / unhook / set_jac_base_order calls, jac() never "
         "calls None, never calls the cached object with the other signature, and calls a hooked or attribute-supplied Jacobian when one is attached (witness "
         "sequences are reported); each finite-difference closure evaluates at the time stored as its cache key and jac() rebuilds it when t differs; every wrapper "
         "built in DiffRHS differentiates the counted self(t, y) with the same layout; the finite-difference estimate stores d/d input idx in column idx and reshapes "
         "to (*out, *in); the stencil weights (moment system re-solved exactly over the rationals) give an even error expansion and every column of the "
         "(adaptive) Richardson tableau, interpreted over error expansions, removes its leading term for all base orders. Not decided: the rounding-level accuracy reached.")
CLAIMS["C18"] = dict(
    category="other", design="DESIGN.md 4/C18",
    technique="keyword-to-source tables; def-use of args binding; axis rules; quantity-kind (direction) checking of the clipping callback and of t_eval handling",
    text="Decides: OdeSystem(...) and OdeResult(...) are built field by field from solve_ivp's own arguments / the underlying system; args are bound to the "
         "right-hand side's parameters after (t, y) in order; the time axis is last in both branches and the t_eval loop records the last sample after integrating to "
         "each time; t_eval is only ever rearranged (conversion, sort, reversal, sign), never selected from (unique/mask/slice); the max_step/min_step callback is registered exactly when a bound is given and clips the magnitude of the signed step; sorting and range test of "
         "t_eval are direction-normalised. Not decided: agreement with SciPy.")
CLAIMS["C19"] = dict(
    category="other", design="DESIGN.md 4/C19",
    technique="boundary evaluation of the linear index guard; owner rule for the raw buffers; quantity-kind (direction) checking of order-dependent searches; branch rules",
    text="Decides: the integer guard raises IndexError exactly for index >= number of recorded steps (evaluated at counter-1, counter, counter+1) and reads go through "
         "the trimmed views; __getitem__ never reads the raw buffers; every bisection over the history-ordered grid is direction-normalised with the orientation of the RECORDED samples (not the configured span or step) and the nearest-sample "
         "lookup is the direction-free argmin|t - q|; the dense branch is taken exactly when dense output is kept; len() is counter+1.")
CLAIMS["C20"] = dict(
    category="other", design="DESIGN.md 4/C20",
    technique="who-may-call / who-may-write rules over all integrator and system modules; must-pass-through abstract interpretation of jac(); ordering rules for the callback loop",
    text="Decides: the user's right-hand side is called only in DiffRHS.__call__ (every other evaluation, including finite-difference closures, goes through the "
         "counting wrapper); nfev changes only by +1 after the user call returned and is zeroed only in the constructor and reset; every path of jac() to a return "
         "passes exactly one njev increment; callbacks run in the given order, once per iteration at the top level of the loop, after the commit and the event "
         "handling; nothing but the magnitude-preserving re-orientation touches dt between a callback and the next step; the recursive call for a terminal event "
         "passes no callbacks; each system owns its counters (a DiffRHS argument is copied, DiffRHS.__copy__ starts from zero).")

# clauses decided by rules added in later rounds (DESIGN.md 10.6); appended to the claim text of each property
ADDENDA = {
    "C02": "Also decided: the splitting stage loop, executed symbolically for stages 0..2, evaluates the rhs at the composition's times and partial states; "
           "the tolerances handed to the stage solver are k*(atol + rtol*|y|) of the integrator's own settings.",
    "C03": "Also decided: an early return before the loop is taken only at rounding distance from the target; the orientation helper keeps the magnitude of the step it is given.",
    "C04": "Also decided: the proposal is not stored unconditionally while the last step is clamped; the loop guard compares |tf - t| with a rounding-size threshold and reads no direction.",
    "C05": "Also decided: the recorded (time, state) are the accepted attempt's own increments; a NaN error estimate makes the controller reject (NaN-taint analysis of update_timestep).",
    "C06": "Also decided: DenseOutput's query functions write no state; every mutation of the piece list passes through the invalidation of the cached interval arrays before the mutating method returns.",
    "C08": "Also decided (re-judged for this property): sentinel discipline of the duplicate filter, ordering before truncation, and the in-step test is mirrored by the direction of the CURRENT step with its far edge closed.",
    "C09": "Also decided: the far edge of the in-step test is closed in both directions (a terminal event at the end of a step is reported).",
    "C11": "Also decided (re-judged): the propagated increment and the stage arguments are the table's, so R(z) is the stability function of the computed step.",
    "C12": "Also decided: every handler that can catch a class raised by integrator code (exception hierarchy resolved) records the failure status and re-raises; a NaN error estimate is rejected rather than committed.",
    "C13": "Also decided: the tolerance setters rebuild the integrator (its constructor copies the tolerances); every store of reset() is unconditional; no in-place update through a name that may alias a constructor argument or attribute.",
    "C14": "Also decided: machine-epsilon floors of the tolerance take the bracket's dtype; the solvers write no state outside their locals.",
    "C15": "Also decided: the residual term of the success expression is bounded by an absolute tolerance; the solvers write no state outside their locals.",
    "C16": "Also decided: the evaluating methods of JacobianWrapper assign no instance state (no template cached from an earlier call).",
    "C17": "Also decided: the lookup and Hermite evaluation functions write nothing but their locals.",
    "C19": "Also decided: the integer branch is interpreted for every index in [-2n-4, n+3] against list semantics (numpy's negative wrap modelled); __getitem__ writes no state; the piece removed on the terminal path is selected by the direction.",
    "C20": "Also decided: the callback list iterated is a fresh list on every path; reset() zeroes the counters unconditionally.",
}
ADDENDA2 = {
    "C02": "the last slot of every nonlinear_roots return (which the integrator's acceptance test reads) is the residual norm.",
    "C03": "the step used on a retry is bounded in magnitude by the requested one (integrate() records t + dTime unchecked).",
    "C05": "tolerances changed through the system's setters reach every copy the integrators keep (the setters rebuild the integrator).",
    "C06": "inside CubicHermiteInterp absolute times are only ever subtracted from one another (affine kind discipline, attribute kinds read from the constructor); "
           "constant-index reads of the piece lists are unreachable while the store is None or empty; a piece index is decremented only where it is positive.",
    "C07": "the list of recorded events is read only at last_occurrence[event index]; the vectorised root search certifies a root by a sign change (DIM discipline).",
    "C08": "the duplicate test of one event reads only that event's own latest record.",
    "C09": "the dense-output store emptied by a terminal event in the first step accepts the next piece (emptiness discipline).",
    "C11": "the tolerance the stage equations are accepted to is relative to the state (re-judged).",
    "C12": "no `except` outside integrate() absorbs arbitrary exceptions (specific classes or re-raise on every path).",
    "C14": "the stopping width is the requested tolerance, never a tolerance scaled by the position of the bracket.",
    "C16": "a copy of the wrapper (what OdeSystem makes) carries a hooked Jacobian in every reachable abstract state of the original.",
    "C17": "shortcut returns of the Hermite value/gradient are taken at single values of the normalised coordinate only.",
    "C18": "the initial step handed to OdeSystem is bounded above by max_step for every first_step.",
    "C19": "the piece index of a time lookup cannot wrap around (index-decrement discipline in find_interval / find_interval_vec).",
    "C20": "every iteration of the step loop reaches the callback loop (no break/continue/return before it), the terminal-event iteration included.",
}
ADDENDA3 = {   # round 9
    "C01": "the stage SYSTEM handed to the nonlinear solver evaluates every stage at its own argument (no stage pinned to a cached slope).",
    "C03": "the target of integrate(t) reaches the time arithmetic as given (no conversion to a fixed precision).",
    "C05": "the scalar the controller works with is an order-reversing function of the scaled error of every component (abstract interpretation over sense and coverage of reductions).",
    "C06": "the vectorised bisection behind array queries is re-judged over all order types (no cast of the end-time table to the query dtype).",
    "C07": "the views `events` / `events_dict` are computed from the record list on every read (they store nothing).",
    "C08": "where a new piece is stored in the ascending list of step end times depends on the times already stored.",
    "C10": "the default kick mask, interpreted over index sets of the leading axis for n = 2..9, is exactly the latter half.",
    "C12": "the failure handlers cannot themselves fail on the caught object (no indexing / unpacking of its payload before the status store and the raise).",
    "C13": "every function below integrate() (integrators, stage solver, finite-difference Jacobian, root finders, interpolation) stores nothing into the arrays it is given or into views of them.",
    "C16": "one iteration of the finite-difference loop, interpreted over Laurent polynomials with f linearised and the stencil moments, yields exactly the derivative in column j on every path (the sum is divided by the step that component was perturbed with).",
    "C17": "a shortcut return guarded by anything but an equality of the coordinate with one value (tolerances, isclose, orderings) is reported.",
    "C18": "the clamped last step of every integrate() call is taken exactly when |dt| > |tf - t|, so it never exceeds the clipped dt.",
    "C20": "every integrator makes its first attempt with exactly the step it was given (a callback's dt is not clamped or damped before it is tried).",
}
ADDENDA4 = {   # round 10
    "C01": "the splitting step is the stated composition on every path (data-dependent branches explored: no sub-step takes its slope from another call).",
    "C02": "stage formulas are decided by interpretation over tensors with concrete stage axes and abstract state axes (E-EIN): another way of writing the same stage formula is accepted, permuted state axes or a sum over the wrong axis are reported with the reason.",
    "C03": "every `counter += 1` commits rows written in this iteration (flow analysis with an allocator summary: a re-allocation keeps the fact only if it carries over every row).",
    "C04": "the dt setter stores the value it is given (no bounding by the constructed span).",
    "C05": "the scale multiplying rtol is computed from the current step only (no running average kept between steps).",
    "C07": "handle_events receives the events and self.constants read at the call (re-judged).",
    "C09": "the stop flag of a terminal event is rebound only by the handler's result (re-judged).",
    "C11": "nonlinear_roots never hands the integrator's explicit predictor back as a converged root.",
    "C12": "a setting of the integrator / rhs wrapper / dense output changed inside integrate() is restored by a finally clause.",
    "C14": "the stopping tests of the scalar and the vector solver are the same boolean function (truth table).",
    "C17": "every intermediate of the Hermite value / gradient has a degree between -1 and +1 in the unit of time (no power of a time difference formed on its own).",
    "C18": "the states returned for t_eval are recorded samples, never values read off the dense output.",
    "C19": "a dedicated __iter__ / __reversed__ / __contains__ reads the trimmed views only.",
    "C20": "solve_ivp stores the system's dt nowhere but in its clipping callback.",
}
ADDENDA5 = {   # round 11
    "C01": "results kept between calls are keyed by everything they depend on (memoisation discipline: Richardson wrappers per (basis, levels)); the tables an instance steps with are the class tables that were verified.",
    "C02": "the step loop calls the integrator the system holds at that step (no reference bound before the loop).",
    "C03": "every retry of a rejected step is clamped to the requested step at the call.",
    "C04": "the dt setter writes nothing but the step.",
    "C05": "all stages entering the error estimate are evaluated in this call (re-judged).",
    "C06": "the dense branch of a time lookup returns the interpolant on every path; the piece lists are changed only through the position-deciding branch of add_interpolant.",
    "C07": "reset() replaces the piece store unconditionally (the event search uses it also when dense output is off); the classification probes include a resolvable wide one.",
    "C08": "the classification probes include one at step*eps**0.5 or wider.",
    "C09": "event attributes are read at every call (no memoised reading keyed by the identity of the event functions).",
    "C10": "a mask handed to set_method reaches the live integrator on every path; instance tables are the class tables.",
    "C11": "instance tables are the class tables (no row selection when adaptivity is switched).",
    "C12": "reset() is unconditional also after a failure before the first accepted step (re-judged).",
    "C14": "the iteration arrays of the vector solver are distinct objects (no live alias between an array updated in place and another name).",
    "C15": "a failed linear solve in the backend propagates (no handler returns a substitute).",
    "C16": "an array perturbed through a flat alias is C-contiguous by construction.",
    "C17": "a Hermite piece owns copies of its six inputs.",
    "C18": "no retry of a rejected step exceeds the requested (clipped) step.",
    "C19": "the store the lookup bisects is changed only through the position-deciding branch (Richardson sub-steps included).",
    "C20": "only the constructor, the dt setter, reset(), integrate() and the orientation helper store the step size.",
}
ADDENDA6 = {   # round 12
    "C01": "the step routines store nothing into their arguments (the stage clock of the splitting step is the integrator's own object).",
    "C02": "each integrator owns its stage array (no pooled storage).",
    "C03": "buffers are trimmed to the recorded rows on every exit (re-judged).",
    "C04": "the step size is rebound, never written in place (setter and orientation).",
    "C05": "the controller accumulates nothing into the tolerance objects it was given.",
    "C07": "no search-function wrapper is kept per event callable across systems (memoisation discipline incl. default-argument dicts).",
    "C08": "event attributes are not memoised (re-judged).",
    "C10": "the kick mask an integrator keeps is a copy of the user's array.",
    "C12": "no in-place update of the step array handed to an integrator (re-judged).",
    "C15": "nothing derived from a call's additional arguments is kept in a cache that is not keyed by them.",
    "C18": "the callback list the facade appends to is its own.",
}
ADDENDA7 = {   # round 13
    "C02": "no return of the Runge-Kutta driver or of the splitting step comes before the stage sweep (must-pass-through).",
    "C04": "the pre-loop clamp is strict (a requested step equal to the span is kept).",
    "C05": "the tolerance scale is stored on every path that reaches the tolerance.",
    "C06": "a kept end slope is dropped by integrate() before its step loop (integrator and basis integrators).",
    "C07": "every append to the recorded events is guarded by no-records / sentinel / distance to the event's own latest record (truth table).",
    "C09": "event flags are read from the object the caller passed (loop element never rebound).",
    "C10": "every return of the splitting step follows the reset of the increment and the stage loop.",
    "C11": "the accepted residual is the residual at every return site of the front end.",
    "C16": "the order an evaluation reports is never read back by the wrapper.",
    "C18": "the initial state is only converted, never reshaped, before the system is built.",
    "C19": "a time slice whose bounds lie outside the run returns rows [0 : counter + 1] on every path.",
    "C20": "the callbacks are dropped only when the argument is None.",
}
ADDENDA8 = {   # round 14
    "C02": "the stage time reaches the right-hand side without a dtype cast; the stage residual evaluates the right-hand side it was called with.",
    "C03": "len(system) is counter + 1 (re-judged).",
    "C04": "the proposal store follows the nested integrate() call of a terminal event.",
    "C05": "every recorded row is an integrator result (no state read from the interpolant).",
    "C09": "the terminal truncation reads no snapshot taken before the arrays were ordered.",
    "C12": "every handler that lets an exception out of integrate() records the status first, whatever its type.",
    "C14": "products of function values are followed through locals.",
    "C15": "a tensor-shaped user Jacobian is flattened to (fdim, xdim) without transposition in every solver.",
    "C19": "every piece of a rolled-back step is removed (piece balance re-judged).",
}
ADDENDA9 = {   # round 15
    "C03": "the loop guard asks nothing of the step but that it is not exactly zero.",
    "C04": "only the constructor, the dt setter, reset(), integrate() and the orientation helper store the step (re-judged).",
    "C05": "the Richardson wrapper acts on the verdict of every controller call.",
    "C06": "the Richardson wrapper hands over the pieces of the step just taken (lists emptied and filled unconditionally).",
    "C07": "the Hermite piece is the cubic outside its step as well (re-judged: classification samples).",
    "C08": "the event views are read-only (no cached snapshot; re-judged).",
    "C09": "the interpolant's gradient is the derivative of its value polynomial (re-judged: requires_dstate events).",
    "C13": "the kick mask survives every change of method (re-judged).",
    "C14": "width-based stopping tests compare the full bracket width with the tolerance.",
    "C18": "args are bound element by element (no re-grouping before the zip).",
    "C19": "reset() re-creates the dense output (re-judged).",
    "C20": "the dt setter stores what it is given (re-judged).",
}
for _add in (ADDENDA2, ADDENDA3, ADDENDA4, ADDENDA5, ADDENDA6, ADDENDA7, ADDENDA8, ADDENDA9):
    for _k, _v in _add.items():
        ADDENDA[_k] = (ADDENDA[_k] + " " + _v[0].upper() + _v[1:]) if _k in ADDENDA else "Also decided: " + _v
for _k, _v in ADDENDA.items():
    CLAIMS[_k]["text"] = CLAIMS[_k]["text"] + " " + _v

PENDING = {}   # property -> reason it is not (yet) claimed


def main():
    checks = []
    for pid in sorted(CLAIMS):
        c = CLAIMS[pid]
        checks.append(dict(
            property_id=pid,
            quick_cmd="./check %s --tier quick" % pid,
            thorough_cmd="./check %s --tier thorough" % pid,
            evidence_file="evidence/%s.json" % pid,
            replay_cmd_template="./check %s --replay {path}" % pid,
            engine="sa",
            level_claimed=dict(category=c["category"], text=c["text"], design_ref=c["design"]),
            level_note=NOTE,
            technique=c["technique"],
        ))
    na = []
    for i in range(1, 21):
        pid = "C%02d" % i
        if pid not in CLAIMS:
            na.append(dict(property_id=pid, reason=PENDING.get(pid, "rules for this property are not built yet in this session; "
                                                                     "it is not claimed until its check exists (see DESIGN.md section 4)")))
    man = dict(
        version=1,
        setup_cmd="/venv/bin/python -m compileall -q sa check tools >/dev/null 2>&1; /venv/bin/python tools/selfcheck.py",
        hooks=dict(guard="DESOLVER_VERIF", enable="none needed: the checks read the source, no instrumentation is compiled in",
                   baseline_off_cmd="cd /repo && /venv/bin/python -m pytest -ra -q -p no:cacheprovider --timeout=900 "
                                    "--continue-on-collection-errors --junitxml=/tmp/desolver_baseline.junit.xml",
                   source_commits=[], add_only=True),
        engines=[dict(name="sa", path="sa/", serves_properties=sorted(CLAIMS),
                      kind_free_text="repository-specific static analyser over the stdlib ast: table folding + exact algebra, "
                                     "quantity-kind inference, structured abstract interpretation of control flow, "
                                     "expression normal forms, ownership/completeness rules")],
        checks=checks,
        notes="Static analysis only. exit 0 = held (KNOWN-FINDING lines for triaged defects in known_findings.json), "
              "exit 1 = VIOLATION line(s), exit 2 = ANALYSIS-ERROR (anchor missing / floor not met: the analyser cannot decide).",
        not_applicable=na,
    )
    with open(os.path.join(HERE, "MANIFEST.json"), "w") as fh:
        json.dump(man, fh, indent=1)
    print("MANIFEST.json: %d checks, %d not_applicable" % (len(checks), len(na)))


if __name__ == "__main__":
    main()
