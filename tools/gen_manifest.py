#!/venv/bin/python
"""Regenerates /verif/MANIFEST.json from the table below (kept in one place so that the manifest,
the not_applicable list and the rules that exist cannot drift apart)."""
import json
import os

HERE = os.path.dirname(os.path.dirname(os.path.abspath(__file__)))

NOTE = ("trusted base: CPython's ast module and the analyser in /verif/sa; the check reads /repo's working tree on every run, "
        "imports nothing from it and executes none of it; a construct is reported only on definite facts (resolved anchors, "
        "folded constants, definite kinds); numeric/behavioural clauses listed as 'not decided' in DESIGN.md section 4 are outside the claim")

CLAIMS = {
    "C01": dict(
        category="other", design="DESIGN.md 4/C01",
        technique="constant folding of table literals + exact rooted-tree order conditions, B/C/D simplifying assumptions, "
                  "free-algebra (BCH) words, abstract interpretation of the Neville tableau over error expansions",
        text="Decides the table clause of C01 exactly: every shipped table (32, read from the shipped lists) is folded from the "
             "source literals and the order conditions for ALL rooted trees up to the declared order (53 272 for RK1412; order 19 "
             "via B(19),C,D) are evaluated in exact dyadic arithmetic with a 1e-10 residual bound; estimator weights (read from "
             "get_error_estimate) must be consistent; splitting schemes are checked word by word against exp(h(A+B)); the "
             "Richardson tableau code is interpreted over symbolic error expansions for every shipped base order and 2..5 levels. "
             "For the 30 tables without an open finding this is a proof of the algebraic conditions that are necessary and sufficient for "
             "the declared local order of the map the tables define (that step() evaluates that map is C02's clause; nothing is integrated). "
             "The level is 'other', not 'proof', because two obligations are undischarged known findings (the declared orders of the two "
             "high-order splitting schemes), so the property as a whole is not proved."),
    "C10": dict(
        category="proof", design="DESIGN.md 4/C10",
        technique="constant folding + exact symplecticity matrix / symmetry / palindrome identities; AST shape of the drift-kick update",
        text="For every shipped class flagged symplectic: RK tables satisfy b_i a_ij + b_j a_ji = b_i b_j (<=1e-13) and the symmetry "
             "relations; splitting tables have exclusive drift/kick rows summing to one in a palindromic sequence; the step code "
             "applies each row as a shear evaluated at the running partial state with complementary masks. By the cited theorems "
             "this proves symplecticity/reversibility of the exact-arithmetic map for separable Hamiltonians; rounding-level and "
             "long-run energy behaviour are not decided."),
    "C11": dict(
        category="proof", design="DESIGN.md 4/C11",
        technique="constant folding + exact stability polynomials (Faddeev-LeVerrier), Sturm sequence on the E-polynomial, Routh-Hurwitz on the poles",
        text="For each of the 16 shipped implicit tables the stability function R=P/Q is computed exactly from the folded "
             "coefficients; (1+1e-9)|Q(iy)|^2-|P(iy)|^2 is shown to have no real root (Sturm) and Q to have all roots in Re z>0 "
             "(Routh), i.e. A-stability by the maximum-modulus principle, for ALL z in the closed left half-plane rather than a "
             "sample. That the computed step equals the scheme's map is C02's clause."),
}

CLAIMS["C02"] = dict(
    category="other", design="DESIGN.md 4/C02",
    technique="AST rules: table-subscript layout classification, polynomial normal forms of stage formulas against templates, "
              "truth tables, typestate abstract interpretation of the retry loop over the structured control flow",
    text="Decides the structural clause of C02, not the numbers: every reader of a coefficient table uses the [c | A] / [. | b] layout "
         "the tables are written in; the stage time/state arguments of compute_step, algebraic_system and the high-precision Jacobian "
         "branch equal t0 + h c_i and y0 + h sum_j a_ij k_j as polynomial normal forms; the propagated increment is h sum b_i k_i of the "
         "solved stages (FSAL shortcut only for explicit FSAL tables); the stored Newton flag implies solver success AND residual < tol; "
         "and on every path of RungeKuttaIntegrator.__call__ (all abstract states, fixpoint over the retry loop, exceptional edges) no "
         "return is reachable for an implicit method whose last stage solve failed. Each is a necessary condition: breaking it changes the "
         "computed map. Equality 'to rounding / to solver tolerance' of returned values is not decided.")
CLAIMS["C17"] = dict(
    category="proof", design="DESIGN.md 4/C17",
    technique="polynomial normal forms (Hermite end conditions, derivative identity); abstract interpretation of the bisection body over order types",
    text="Hermite: the value expression of CubicHermiteInterp is normalised to a polynomial in tau and shown to be the unique cubic with "
         "H(0)=p0, H(1)=p1, H'(0)=trange*m0, H'(1)=trange*m1 (so every cubic is reproduced, for either interval orientation), grad is shown "
         "identical to d/dt of that polynomial, the early-return shortcuts equal the polynomial at tau=0,1, and the constructor slots are "
         "bound positionally. Bisection: search_bisection is comparison-only, so its behaviour depends only on the order type of the query "
         "relative to the array; its body is interpreted over ALL order types for array lengths 1..8 (quick) / 1..24 (thorough) against "
         "the specification min(first index with element >= query, n-1). The vector variant is not decided (numpy semantics are not "
         "modelled); rounding is not modelled.")

CLAIMS["C03"] = dict(
    category="other", design="DESIGN.md 4/C03",
    technique="quantity-kind (affine/direction) type checking of time arithmetic; def-use and polynomial normal forms of the commit; "
              "dominance of capacity tests; abstract interpretation of dt orientation over the structured control flow",
    text="Decides the structural clause of C03 for every span, direction and history at once: (1) the time arithmetic of integrate(), "
         "__fix_dt_dir, __alloc_space_steps and the dt/t0/tf setters is well-kinded (no abs/sign/scaling of absolute times, no ordering of "
         "signed steps outside a direction guard), which is the necessary condition for translation/reflection invariance; (2) each loop "
         "iteration calls the integrator at the last committed row with a step in {dt, tf - t}, writes rows counter+1 = row + that call's own "
         "increments before advancing the counter with no user-code call in between, clamps exactly when |dt| > |tf - t|, loops while |tf - t| >= eps; "
         "(3) a capacity test dominates every row write; (4) only row counter+1 is ever stored and buffers keep y0's dtype; (5) on every path the "
         "signed step handed to the integrator was oriented toward THIS call's target. Not decided: finiteness of values, rounding-level closeness to tf.")
CLAIMS["C04"] = dict(
    category="other", design="DESIGN.md 4/C04",
    technique="quantity-kind (direction/unit) type checking of the integrators' step arithmetic; provenance abstract interpretation of the returned step; def-use rules",
    text="Decides: the step-size arithmetic of RungeKuttaIntegrator.__call__/step, the splitting integrator, update_timestep, the implicit-aware "
         "controller and the Richardson wrapper is direction-symmetric (no min/max/ordering/log of signed steps); on every path of __call__ a "
         "non-adaptive explicit method hands back exactly the step it was given and an implicit one at most shrinks it after a failed stage solve "
         "(provenance lattice INPUT/SHRUNK/CONTROLLER); dTime records the requested step; integrate() overwrites dt only with the integrator's "
         "proposal and only when the step was not the clamped last one. The rounding/tolerance-level shift/reflection relation of computed states is "
         "not decided; well-kindedness is its necessary condition.")
CLAIMS["C05"] = dict(
    category="other", design="DESIGN.md 4/C05",
    technique="typestate abstract interpretation of the retry loop (fixpoint over abstract states, exceptional edges); normal forms and folded constants of the controller",
    text="Decides only the second sentence of C05: on every path of RungeKuttaIntegrator.__call__ a step whose redo flag is set is never returned "
         "(it is retried inside a bounded loop or FailedToMeetTolerances is raised); the retried step is the controller's proposal bounded in magnitude by "
         "the requested step; update_timestep returns (corr*h, corr<c) with one corr and constant c<1 and the implicit-aware limiter cannot undo the "
         "shrink (c*(1+0.1*pi/2)<1); the error fed to the controller is h*sum(b-b_hat)k. NOT decided (not applicable to static analysis): that the "
         "global error is proportional to the tolerances.")

PENDING = {}   # property -> reason it is not (yet) claimed


def main():
    checks = []
    for pid in sorted(CLAIMS):
        c = CLAIMS[pid]
        checks.append(dict(
            property_id=pid,
            quick_cmd="./check %s --tier quick" % pid,
            thorough_cmd="./check %s --tier thorough" % pid,
            evidence_file="evidence/%s.json" % pid,
            replay_cmd_template="./check %s --replay {path}" % pid,
            engine="sa",
            level_claimed=dict(category=c["category"], text=c["text"], design_ref=c["design"]),
            level_note=NOTE,
            technique=c["technique"],
        ))
    na = []
    for i in range(1, 21):
        pid = "C%02d" % i
        if pid not in CLAIMS:
            na.append(dict(property_id=pid, reason=PENDING.get(pid, "rules for this property are not built yet in this session; "
                                                                     "it is not claimed until its check exists (see DESIGN.md section 4)")))
    man = dict(
        version=1,
        setup_cmd="/venv/bin/python -m compileall -q sa check tools >/dev/null 2>&1; /venv/bin/python tools/selfcheck.py",
        hooks=dict(guard="DESOLVER_VERIF", enable="none needed: the checks read the source, no instrumentation is compiled in",
                   baseline_off_cmd="cd /repo && /venv/bin/python -m pytest -ra -q -p no:cacheprovider --timeout=900 "
                                    "--continue-on-collection-errors --junitxml=/tmp/desolver_baseline.junit.xml",
                   source_commits=[], add_only=True),
        engines=[dict(name="sa", path="sa/", serves_properties=sorted(CLAIMS),
                      kind_free_text="repository-specific static analyser over the stdlib ast: table folding + exact algebra, "
                                     "quantity-kind inference, structured abstract interpretation of control flow, "
                                     "expression normal forms, ownership/completeness rules")],
        checks=checks,
        notes="Static analysis only. exit 0 = held (KNOWN-FINDING lines for triaged defects in known_findings.json), "
              "exit 1 = VIOLATION line(s), exit 2 = ANALYSIS-ERROR (anchor missing / floor not met: the analyser cannot decide).",
        not_applicable=na,
    )
    with open(os.path.join(HERE, "MANIFEST.json"), "w") as fh:
        json.dump(man, fh, indent=1)
    print("MANIFEST.json: %d checks, %d not_applicable" % (len(checks), len(na)))


if __name__ == "__main__":
    main()
