#!/venv/bin/python
"""setup step: the analyser needs nothing built; confirm it imports and that /repo parses."""
import os
import sys

sys.path.insert(0, os.path.dirname(os.path.dirname(os.path.abspath(__file__))))
sys.dont_write_bytecode = True
from sa.front import Repo  # noqa: E402

r = Repo()
print("analyser ready: %d modules parsed from %s" % (len(r.modules), r.root))
