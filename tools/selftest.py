#!/venv/bin/python
"""Self-validation of the analyser: must-fire and must-stay-silent variants.

Each variant is a textual edit of a scratch copy of /repo/desolver (made under a fresh temporary
directory, removed afterwards).  A must-fire variant has to produce a VIOLATION of the named rule;
a silent variant has to leave the verdict of the property unchanged (exit 0, no VIOLATION).  Variants
whose anchor text is not found on the current tree are reported as STALE (not as failures).

usage: selftest.py [C01 C02 ...] [-j N] [-v]"""
import argparse
import concurrent.futures as cf
import importlib
import io
import contextlib
import json
import os
import shutil
import sys
import tempfile

HERE = os.path.dirname(os.path.dirname(os.path.abspath(__file__)))
sys.path.insert(0, HERE)
sys.dont_write_bytecode = True
REPO = os.environ.get("VERIF_REPO", "/repo")


def load_variants():
    from tools import variants
    return variants.VARIANTS


def run_variant(v):
    from sa.front import Repo, AnalysisError
    from sa.report import Run
    from sa import report as rep
    prop = v["prop"]
    tmp = tempfile.mkdtemp(prefix="sa_selftest_")
    try:
        shutil.copytree(os.path.join(REPO, "desolver"), os.path.join(tmp, "desolver"),
                        ignore=shutil.ignore_patterns("tests", "__pycache__"))
        for rel, old, new in v["edits"]:
            path = os.path.join(tmp, rel)
            with open(path) as fh:
                s = fh.read()
            cnt = s.count(old)
            want = v.get("count", 1)
            if cnt != want:
                return dict(v=v["id"], status="STALE", detail="anchor text found %d times (want %d) in %s" % (cnt, want, rel))
            s = s.replace(old, new)
            try:
                compile(s, path, "exec")
            except SyntaxError as e:
                return dict(v=v["id"], status="BROKEN-VARIANT", detail="does not compile: %s" % e)
            with open(path, "w") as fh:
                fh.write(s)
        mod = importlib.import_module("sa.rules.%s" % prop.lower())
        buf = io.StringIO()
        # evidence/replay of scratch runs must not overwrite the real ones
        scratch_out = os.path.join(tmp, "_out")
        os.makedirs(scratch_out)
        old_verif = rep.VERIF
        rep.VERIF = scratch_out
        try:
            with contextlib.redirect_stdout(buf):
                try:
                    repo = Repo(tmp)
                    run = Run(prop, "quick", getattr(mod, "LEVEL", "other"), 0)
                    from sa.report import run_rules
                    rc = run_rules(mod, repo, run, "quick")
                    new = [f for f in run.findings]
                except AnalysisError as e:
                    rc = 2
                    new = []
                    print("ANALYSIS-ERROR %s" % e)
        finally:
            rep.VERIF = old_verif
        out = buf.getvalue()
        viol = [ln for ln in out.splitlines() if " rule " in ln and "KNOWN-FINDING" not in ln]
        fired_rules = {ln.split(" rule ")[1].split(":")[0] for ln in viol}
        if v["expect"] == "silent":
            ok = rc == 0
            return dict(v=v["id"], status="ok" if ok else "FALSE-ALARM", detail="rc=%d %s" % (rc, "; ".join(viol)[:300] or out[-300:]))
        exp = set(v["expect"] if isinstance(v["expect"], (list, tuple)) else [v["expect"]])
        ok = rc == 1 and (fired_rules & exp)
        return dict(v=v["id"], status="ok" if ok else "MISSED", detail="rc=%d fired=%s expected one of %s %s" % (
            rc, sorted(fired_rules), sorted(exp), "" if ok else out[-400:]))
    finally:
        shutil.rmtree(tmp, ignore_errors=True)


def main():
    ap = argparse.ArgumentParser()
    ap.add_argument("props", nargs="*")
    ap.add_argument("-j", type=int, default=min(16, os.cpu_count() or 4))
    ap.add_argument("-v", action="store_true")
    ap.add_argument("--only")
    a = ap.parse_args()
    variants = load_variants()
    if a.props:
        variants = [v for v in variants if v["prop"] in a.props]
    if a.only:
        variants = [v for v in variants if a.only in v["id"]]
    results = []
    with cf.ProcessPoolExecutor(max_workers=a.j) as ex:
        for r in ex.map(run_variant, variants):
            results.append(r)
            if a.v or r["status"] != "ok":
                print("%-14s %-28s %s" % (r["status"], r["v"], r["detail"][:400]))
    bad = [r for r in results if r["status"] not in ("ok", "STALE")]
    stale = [r for r in results if r["status"] == "STALE"]
    print("selftest: %d variants, %d ok, %d stale, %d failed" % (len(results), len(results) - len(bad) - len(stale), len(stale), len(bad)))
    sys.exit(1 if bad else 0)


if __name__ == "__main__":
    main()
