#!/venv/bin/python
"""Regenerates the table of seeded changes in DESIGN.md (section 10.4) from a fresh run of tools/seeded_run.py.
usage: design_tables.py [<saved seeded_run output>]"""
import json
import os
import re
import subprocess
import sys

VERIF = os.path.dirname(os.path.dirname(os.path.abspath(__file__)))


def main():
    if len(sys.argv) > 1:
        txt = open(sys.argv[1]).read()
    else:
        txt = subprocess.run(["/venv/bin/python", os.path.join(VERIF, "tools", "seeded_run.py")], stdout=subprocess.PIPE, stderr=subprocess.STDOUT, text=True).stdout
    rows = []
    for ln in txt.splitlines():
        m = re.match(r"(\S+)\s+(C\d\d)\s+(\S+)\s*(.*)", ln)
        if not m or m.group(1)[0].isdigit() or not os.path.isdir(os.path.join(VERIF, "seeded", m.group(1))):
            continue
        name, prop, own, rules = m.groups()
        meta = json.load(open(os.path.join(VERIF, "seeded", name, "meta.json")))
        rl = sorted({r.split(":")[1] for r in rules.split() if ":" in r})
        rows.append((name, prop, meta.get("needs", "").replace("|", "/"), ", ".join(rl), own))
    out = ["| seeded change | property | needs, in order to manifest | rules that fire |", "|---|---|---|---|"]
    out += ["| %s | %s | %s | %s |" % r[:4] for r in rows]
    p = os.path.join(VERIF, "DESIGN.md")
    s = open(p).read()
    a = s.index("| seeded change | property | needs, in order to manifest | rules that fire |")
    b = s.index("Checks that had to be strengthened because a seeded change was missed")
    s = s[:a] + "\n".join(out) + "\n\n" + s[b:]
    s = re.sub(r"Current state: \*\*\d+ seeded changes, all detected by the check of their own property\*\*",
               "Current state: **%d seeded changes, all detected by the check of their own property**" % len(rows), s)
    open(p, "w").write(s)
    print("%d rows; not own-property: %s" % (len(rows), [r[0] for r in rows if r[4] != "own"]))
    print(txt.strip().splitlines()[-1])


if __name__ == "__main__":
    main()
