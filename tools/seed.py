#!/venv/bin/python
"""Keep a seeded change produced by an independent sub-agent.

usage: seed.py <name> <property> <dir with patch.diff and demo.py> "<what it needs to manifest>"

Steps (all in a fresh scratch worktree of /repo, removed afterwards):
  1. demo.py on the unchanged tree   -> must exit 0
  2. apply patch.diff, demo.py        -> must exit non-zero
  3. the pinned test suite with the patch -> must pass (1878 passed)
then: git -C /repo apply patch; run every quick check; git -C /repo checkout -- . ; record which checks fire.
Writes /verif/seeded/<name>/{patch.diff, demo.py, meta.json}."""
import json
import os
import shutil
import subprocess
import sys
import tempfile

VERIF = os.path.dirname(os.path.dirname(os.path.abspath(__file__)))
PY = "/venv/bin/python"


def sh(cmd, cwd=None, env=None, timeout=3600):
    e = dict(os.environ)
    e.update(env or {})
    p = subprocess.run(cmd, shell=True, cwd=cwd, env=e, stdout=subprocess.PIPE, stderr=subprocess.STDOUT, text=True, timeout=timeout)
    return p.returncode, p.stdout


def run_checks(props=None):
    out = {}
    for i in range(1, 21):
        pid = "C%02d" % i
        rc, txt = sh("./check %s --tier quick" % pid, cwd=VERIF)
        rules = sorted({ln.split(" rule ")[1].split(":")[0] for ln in txt.splitlines() if " rule " in ln and "KNOWN-FINDING" not in ln})
        out[pid] = dict(rc=rc, rules=rules, lines=[ln[:300] for ln in txt.splitlines() if " rule " in ln and "KNOWN-FINDING" not in ln][:4])
    return out


def main():
    name, prop, src_dir, needs = sys.argv[1:5]
    skip_suite = "--skip-suite" in sys.argv
    dest = os.path.join(VERIF, "seeded", name)
    os.makedirs(dest, exist_ok=True)
    for f in ("patch.diff", "demo.py"):
        shutil.copy(os.path.join(src_dir, f), os.path.join(dest, f))
    head = sh("git -C /repo rev-parse --short HEAD")[1].strip()
    wt = tempfile.mkdtemp(prefix="seedwt_")
    os.rmdir(wt)
    meta = dict(name=name, property=prop, needs=needs, repo_head=head, ran=[])
    try:
        rc, o = sh("git -C /repo worktree add -q --detach %s HEAD" % wt)
        assert rc == 0, o
        shutil.copy(os.path.join(dest, "demo.py"), os.path.join(wt, "demo.py"))
        env = {"PYTHONPATH": wt}
        rc0, o0 = sh("%s demo.py" % PY, cwd=wt, env=env, timeout=1800)
        meta["demo_unchanged_exit"] = rc0
        meta["ran"].append("demo.py on a fresh worktree of /repo@%s: exit %d" % (head, rc0))
        rc, o = sh("git apply %s" % os.path.join(dest, "patch.diff"), cwd=wt)
        meta["patch_applies"] = rc == 0
        if rc != 0:
            meta["apply_error"] = o[-500:]
        else:
            rc1, o1 = sh("%s demo.py" % PY, cwd=wt, env=env, timeout=1800)
            meta["demo_changed_exit"] = rc1
            meta["demo_changed_tail"] = o1.strip().splitlines()[-6:]
            meta["ran"].append("demo.py with patch.diff applied: exit %d" % rc1)
            rcc, oc = sh("%s -c 'import desolver'" % PY, cwd=wt, env=env)
            meta["imports"] = rcc == 0
            if not skip_suite:
                rcs, os_ = sh("%s -m pytest -q -p no:cacheprovider --timeout=900 --continue-on-collection-errors --disable-warnings -n 8" % PY, cwd=wt, env=env, timeout=7200)
                summ = [ln for ln in os_.splitlines() if " passed" in ln or " failed" in ln]
                meta["suite_exit"] = rcs
                meta["suite_summary"] = summ[-1] if summ else os_[-300:]
                meta["ran"].append("pinned suite (unedited) with the patch, -n 8: %s" % meta["suite_summary"])
    finally:
        sh("git -C /repo worktree remove --force %s" % wt)
        shutil.rmtree(wt, ignore_errors=True)
    if "--scratch" in sys.argv:
        # development mode: run the twenty checks against a scratch copy with the patch applied (tools/seeded_par.py); /repo is not touched
        sys.path.insert(0, VERIF)
        from tools import seeded_par
        tmp, err = seeded_par.scratch_with_patch(os.path.join(dest, "patch.diff"))
        fired = seeded_par.run_props(tmp) if tmp else {}
        if tmp:
            shutil.rmtree(tmp, ignore_errors=True)
        meta["checks_fired"] = fired
        meta["detected"] = any(r["rc"] == 1 for r in fired.values())
        meta["detected_by_own_property"] = prop in fired and fired[prop]["rc"] == 1
        meta["ran"].append("patch applied to a scratch copy of /repo@%s; twenty quick checks run against the copy" % head)
        with open(os.path.join(dest, "meta.json"), "w") as fh:
            json.dump(meta, fh, indent=1)
        print(json.dumps({k: meta[k] for k in ("name", "property", "demo_unchanged_exit", "demo_changed_exit", "suite_summary", "detected", "detected_by_own_property") if k in meta}, indent=1))
        print("fired:", {p: r["rules"] or r["rc"] for p, r in fired.items()})
        return
    # our checks on /repo itself
    st = sh("git -C /repo status --porcelain")[1].strip()
    if st:
        print("refusing to touch /repo: working tree not clean:\n" + st)
        sys.exit(2)
    base = run_checks()
    rc, o = sh("git -C /repo apply %s" % os.path.join(dest, "patch.diff"))
    try:
        if rc == 0:
            res = run_checks()
        else:
            res = {}
            meta["apply_error_repo"] = o[-400:]
    finally:
        sh("git -C /repo checkout -- .")
    fired = {p: r for p, r in res.items() if r["rc"] != 0}
    meta["baseline_nonzero"] = {p: r["rc"] for p, r in base.items() if r["rc"] != 0}
    meta["checks_fired"] = {p: dict(rc=r["rc"], rules=r["rules"], lines=r["lines"]) for p, r in fired.items()}
    meta["detected"] = any(r["rc"] == 1 for r in fired.values())
    meta["detected_by_own_property"] = prop in fired and fired[prop]["rc"] == 1
    meta["ran"].append("git -C /repo apply patch.diff; ./check C01..C20 --tier quick; git -C /repo checkout -- .")
    with open(os.path.join(dest, "meta.json"), "w") as fh:
        json.dump(meta, fh, indent=1)
    print(json.dumps({k: meta[k] for k in ("name", "property", "demo_unchanged_exit", "demo_changed_exit", "suite_summary", "detected", "detected_by_own_property") if k in meta}, indent=1))
    print("fired:", {p: r["rules"] or r["rc"] for p, r in fired.items()})


if __name__ == "__main__":
    main()
