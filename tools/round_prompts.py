#!/venv/bin/python
"""Prepare one round of independently seeded changes: for every property a scratch worktree of /repo (under /tmp/<round>/wt_Cxx), an output
directory (/tmp/<round>/out_Cxx) and a prompt file (/tmp/<round>/prompt_Cxx.txt) holding ONLY the text of the property, the paths, the deliverables
and a list of what earlier changes for that property needed in order to manifest (so the sub-agent picks a different mechanism).  Nothing from /verif's
rules is shown.
usage: round_prompts.py <round> [emphasis text file]"""
import collections
import json
import os
import re
import subprocess
import sys

VERIF = os.path.dirname(os.path.dirname(os.path.abspath(__file__)))

TEMPLATE = """You are helping to evaluate a verification effort for the Python library desolver (an ODE initial-value-problem solver: explicit, implicit and
symplectic Runge-Kutta integrators, adaptive stepping, dense output, event detection).  You have your own scratch git worktree of the library at

    {wt}

(work ONLY there; never touch /repo or /verif, and do not read anything under /verif).  Python is /venv/bin/python (run things with
`cd {wt} && PYTHONPATH={wt} /venv/bin/python ...`).  There is no network.

Here is one semantic property of the library that is supposed to hold for every input, schedule and history:

    id: {id}
    title: {title}
    statement: {statement}
    quantifier: {quant}
    why the unit tests cannot settle it: {why}
    code it is anchored in: {anchors}

YOUR TASK: produce ONE realistic change to the library source (files under {wt}/desolver, not the tests) that BREAKS this property, while
  (a) the package still imports and byte-compiles,
  (b) the existing test-suite, unedited, still passes:
        cd {wt} && PYTHONPATH={wt} /venv/bin/python -m pytest -q -p no:cacheprovider --timeout=900 --continue-on-collection-errors --disable-warnings -n 8
      (about 1-4 minutes; expected on the unchanged tree: 1878 passed, 158 skipped), and
  (c) the change looks like something a maintainer could plausibly commit (a refactor gone slightly wrong, an "optimisation", a tidy-up, an
      over-eager generalisation, a wrong fix), not sabotage: keep it small (a few lines, at most two or three sites).

The change must need something SPECIFIC in order to manifest - ordinary use must not expose it at once.  {emphasis}

Earlier changes made for this property needed the following in order to manifest; choose a DIFFERENT mechanism and, if you can, a different
place in the code than these:
{earlier}

DELIVERABLES, written to {out}/ :
  1. patch.diff  - `cd {wt} && git diff > {out}/patch.diff` (source files only; no test files, no new files outside desolver/).
  2. demo.py     - a small stand-alone program that imports desolver from PYTHONPATH, exercises the property, prints what it observed and exits 0
                   when the property holds and NON-ZERO when it is violated.  It must exit 0 on the unchanged tree (verify with `git diff > p; git checkout -- .; run; git apply p` --
                   do NOT use `git stash`: the stash is shared by all worktrees of the repository and other people are using it) and non-zero with your change.  It must check the
                   property as stated (an observable behaviour through the public API), not the presence of your edit, must be deterministic, and
                   must finish in under two minutes.
  3. needs.txt   - one or two lines: what is needed for the change to manifest (the particular input, sequence of calls, fault, or pair of sites).

Before you finish: confirm (a), (b) and (c) yourself, confirm demo.py passes without and fails with the change, and leave the worktree WITH your
change applied.  Reply with a short summary: the files/functions changed, why the suite does not notice, and the demo's output in both states.
If your first idea is caught by the test-suite, try another; do not edit tests.
"""

DEFAULT_EMPHASIS = ("Prefer one of: two cooperating sites that each look fine alone; a multi-step sequence of API calls (continue, reset, change a "
                    "setting, continue again); an exception raised at one particular point; an unusual but legal input (dtype, shape, zero-length, "
                    "negative direction, equal values, extreme scale); a rarely taken branch.")


def main():
    rnd = sys.argv[1]
    emphasis = open(sys.argv[2]).read().strip() if len(sys.argv) > 2 else DEFAULT_EMPHASIS
    base = "/tmp/%s" % rnd
    os.makedirs(base, exist_ok=True)
    earlier = collections.defaultdict(list)
    for n in sorted(os.listdir(os.path.join(VERIF, "seeded"))):
        mp = os.path.join(VERIF, "seeded", n, "meta.json")
        if not os.path.exists(mp):
            continue
        m = json.load(open(mp))
        p = open(os.path.join(VERIF, "seeded", n, "patch.diff")).read()
        files = sorted({os.path.basename(f) for f in re.findall(r"^\+\+\+ b/(\S+)", p, re.M)})
        earlier[m["property"]].append("  - %s   [%s]" % (m["needs"].replace("\n", " ")[:260], ", ".join(files)))
    for line in open(os.path.join(VERIF, "properties.jsonl")):
        d = json.loads(line)
        pid = d["id"]
        wt = "%s/wt_%s" % (base, pid)
        out = "%s/out_%s" % (base, pid)
        os.makedirs(out, exist_ok=True)
        if not os.path.exists(wt):
            subprocess.run("git -C /repo worktree add -q --detach %s HEAD" % wt, shell=True, check=True)
        txt = TEMPLATE.format(wt=wt, out=out, id=pid, title=d["title"], statement=d["statement"], quant=d["quantifier"]["text"],
                              why=d["why_tests_cant"], anchors=json.dumps(d["anchors"]), emphasis=emphasis,
                              earlier="\n".join(earlier[pid]) or "  (none)")
        with open("%s/prompt_%s.txt" % (base, pid), "w") as fh:
            fh.write(txt)
    print("prepared", base)


if __name__ == "__main__":
    main()
